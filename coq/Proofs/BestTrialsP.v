From VZ Require Import Base.Prelude Base.XFloat Model.Pareto Model.BestTrials Gen.BestTrialsSrc.

Lemma model_candidate_is_eligible : forall t, is_candidate_of model_tests t = eligible t.
Proof.
  intros [id c i f]. unfold is_candidate_of, model_tests, eligible; simpl.
  destruct c, i; simpl; try reflexivity; try (destruct f; reflexivity).
  destruct f as [ms|]; simpl; [|reflexivity].
  rewrite orb_false_r.
  induction ms as [|m ms IH]; simpl; [reflexivity|].
  destruct m as [x|]; simpl.
  - destruct (is_nan x); simpl.
    + rewrite orb_true_r. reflexivity.
    + rewrite <- IH. reflexivity.
  - reflexivity.
Qed.

Lemma src_tests_are_model : bs_tests src_best = model_tests.
Proof. reflexivity. Qed.

Lemma src_stateless : stateless src_best = true.
Proof. reflexivity. Qed.

(* the reported trials are exactly the eligible trials that no eligible trial dominates *)
Theorem best_exact : forall ts t,
  In t (best_of model_tests ts) <->
  In t ts /\ eligible t = true /\ forall q, In q ts -> eligible q = true -> dominates (vec_of q) (vec_of t) = false.
Proof.
  intros ts t. unfold best_of. rewrite filter_In, filter_In. rewrite model_candidate_is_eligible.
  split.
  - intros [[Hin He] Hnd]. split; [exact Hin|]. split; [exact He|].
    intros q Hq Heq. apply negb_true_iff in Hnd.
    destruct (dominates (vec_of q) (vec_of t)) eqn:Ed; [|reflexivity].
    exfalso. assert (Hex : existsb (fun q0 => dominates (vec_of q0) (vec_of t)) (filter (is_candidate_of model_tests) ts) = true).
    { apply existsb_exists. exists q. split; [|exact Ed]. apply filter_In. split; [exact Hq|]. rewrite model_candidate_is_eligible; exact Heq. }
    congruence.
  - intros [Hin [He Hnd]]. split; [split; assumption|].
    apply negb_true_iff. destruct (existsb _ _) eqn:Ex; [|reflexivity].
    apply existsb_exists in Ex. destruct Ex as [q [Hq Hd]]. apply filter_In in Hq. destruct Hq as [Hq1 Hq2].
    rewrite model_candidate_is_eligible in Hq2. rewrite (Hnd q Hq1 Hq2) in Hd. discriminate.
Qed.

Theorem src_best_exact : forall ts t,
  In t (best_of (bs_tests src_best) ts) <->
  In t ts /\ eligible t = true /\ forall q, In q ts -> eligible q = true -> dominates (vec_of q) (vec_of t) = false.
Proof. rewrite src_tests_are_model. exact best_exact. Qed.

(* never reported: infeasible, unfinished, missing a metric, NaN objective *)
Corollary src_best_only_eligible : forall ts t, In t (best_of (bs_tests src_best) ts) -> 
  bt_completed t = true /\ bt_infeasible t = false /\ exists ms, bt_final t = Some ms /\ Forall (fun m => exists x, m = Some x /\ is_nan x = false) ms.
Proof.
  intros ts t H. apply src_best_exact in H. destruct H as [_ [He _]].
  unfold eligible in He. destruct (bt_completed t), (bt_infeasible t); simpl in He; try discriminate.
  destruct (bt_final t) as [ms|]; [|discriminate].
  repeat split. exists ms. split; [reflexivity|].
  rewrite forallb_forall in He. apply Forall_forall. intros m Hm. specialize (He m Hm).
  destruct m as [x|]; [|discriminate]. exists x. split; [reflexivity|]. apply negb_true_iff in He. exact He.
Qed.
