(* C02 / C07: in every reachable state the trials of a study are stored in strictly increasing id order: listing order =
   id order = creation order, on every history (ids are allocated as max+1 and appended; rewrites keep the position). *)
From VZ Require Import Base.Prelude Base.XFloat Model.Metadata Model.Service Proofs.ServiceP Proofs.WedgeP Proofs.FrameP.
From Coq Require Import Lia Sorted.

Definition ids_sorted (s : state) : Prop :=
  forall k n, get_node k (nodes s) = Some n -> StronglySorted N.lt (map t_id (n_trials n)).

Lemma sorted_snoc l x : StronglySorted N.lt l -> (forall y, In y l -> (y < x)%N) -> StronglySorted N.lt (l ++ [x]).
Proof.
  induction 1 as [|a r Hr IH Ha]; intros Hx; cbn [app]; [constructor; constructor|].
  constructor; [apply IH; intros y Hy; apply Hx; right; exact Hy|].
  apply Forall_app. split; [exact Ha|constructor; [apply Hx; left; reflexivity|constructor]].
Qed.

Lemma sorted_del id l : StronglySorted N.lt (map t_id l) -> StronglySorted N.lt (map t_id (del_trial id l)).
Proof.
  induction l as [|x r IH]; cbn [del_trial map]; intros H; [constructor|]. inversion H as [|? ? Hs Hf]; subst.
  destruct (N.eqb (t_id x) id); [exact Hs|]. cbn [map]. constructor; [apply IH; exact Hs|].
  apply Forall_forall. intros y Hy. apply (proj1 (Forall_forall _ _) Hf). clear -Hy.
  induction r as [|z r IH]; cbn [del_trial map] in *; [exact Hy|]. destruct (N.eqb (t_id z) id); [right; exact Hy|].
  destruct Hy as [Hy|Hy]; [left; exact Hy|right; apply IH; exact Hy].
Qed.

Lemma upd_sorted s k n n' : ids_sorted s -> get_node k (nodes s) = Some n ->
  StronglySorted N.lt (map t_id (n_trials n')) -> ids_sorted (upd s k n').
Proof.
  intros S Hg Hn k0 n0 Hn0. destruct (skey_eqb k0 k) eqn:E.
  - apply skey_eqb_eq in E. subst k0. rewrite (get_node_upd_same s k n n' Hg) in Hn0. injection Hn0 as <-. exact Hn.
  - rewrite get_node_upd_other in Hn0 by (intros ->; rewrite skey_eqb_refl in E; discriminate). exact (S k0 n0 Hn0).
Qed.

(* every primitive except the creation of a trial keeps the order *)
Definition not_create (c : call) : bool := match c with CCreateTrial _ _ => false | _ => true end.

Lemma exec_sorted c s s' r : wf s -> not_create c = true -> ids_sorted s -> exec c s = (s', r) -> ids_sorted s'.
Proof.
  intros W Hc S H. pose proof W as [W1 _].
  destruct c; simpl in Hc; try discriminate; simpl in H; revert H; exec_cases; intros [= <- <-]; try exact S;
    try (eapply upd_sorted; [exact S|eassumption|]; cbn [n_trials];
         match goal with Hg : get_node _ _ = Some ?n |- _ => try exact (S _ _ Hg) end).
  - (* create study *) intros k0 n0 Hn0. cbn [nodes] in Hn0.
    destruct (get_node k0 (nodes s)) as [m|] eqn:Em; [rewrite (get_node_app_old k0 (nodes s) m _ Em) in Hn0; injection Hn0 as <-; exact (S k0 m Em)|].
    apply (get_node_app_new k _ _ k0 n0 Em) in Hn0. subst n0. constructor.
  - intros k0 n0 Hn0. cbn [nodes] in Hn0.
    destruct (get_node k0 (nodes s)) as [m|] eqn:Em; [rewrite (get_node_app_old k0 (nodes s) m _ Em) in Hn0; injection Hn0 as <-; exact (S k0 m Em)|].
    apply (get_node_app_new k _ _ k0 n0 Em) in Hn0. subst n0. constructor.
  - (* delete study *) intros k0 n0 Hn0. cbn [nodes] in Hn0. destruct (skey_eqb k0 k) eqn:E.
    + apply skey_eqb_eq in E. subst k0. rewrite (get_node_del_same k (nodes s) W1) in Hn0. discriminate.
    + rewrite get_node_del_other in Hn0 by (intros ->; rewrite skey_eqb_refl in E; discriminate). exact (S k0 n0 Hn0).
  - (* update trial *) rewrite set_trial_ids. match goal with Hg : get_node _ _ = Some ?n |- _ => exact (S _ _ Hg) end.
  - (* delete trial *) apply sorted_del. match goal with Hg : get_node _ _ = Some ?n |- _ => exact (S _ _ Hg) end.
  - (* metadata *) rewrite map_map. erewrite map_ext; [match goal with Hg : get_node _ _ = Some ?n |- _ => exact (S _ _ Hg) end|].
    intros x. destruct (mem_N (t_id x) (map fst tmd)); reflexivity.
Qed.

(* programs in which every creation of a trial directly follows the read of the largest id and uses that id + 1 *)
Inductive idsafe : prog -> Prop :=
| is_ret r : idsafe (Ret r)
| is_throw e : idsafe (Throw e)
| is_call c k : not_create c = true -> (forall r, idsafe (k r)) -> idsafe (Call c k)
| is_maxcreate k (mk : N -> trial) (kont : N -> res rsp -> prog) :
    (forall m, t_id (mk m) = (m + 1)%N) -> (forall m r', idsafe (kont m r')) ->
    idsafe (Call (CMaxTrialId k) (fun r => match r with
                                           | Ok (RNum m) => Call (CCreateTrial k (mk m)) (kont m)
                                           | Ok _ => Throw EOther | Err e => Throw e end))
| is_acq l p : idsafe p -> idsafe (Acquire l p)
| is_rel l p : idsafe p -> idsafe (Release l p)
| is_py q k : (forall po, idsafe (k po)) -> idsafe (Pythia q k).

Lemma idsafe_run p : idsafe p -> forall s po tr s' o tr', wf s -> ids_sorted s -> run p s po tr = (s', o, tr') -> ids_sorted s' /\ wf s'.
Proof.
  induction 1 as [r|e|c k Hc Hk IH|k mk kont Hid Hk IHk|l p Hp IH|l p Hp IH|q k Hk IH];
    intros s po tr s' o tr' W S Hr; cbn [run] in Hr.
  - injection Hr as <- _ _. auto.
  - injection Hr as <- _ _. auto.
  - destruct (exec c s) as [s1 r] eqn:E. eapply IH; [eapply exec_wf; eauto|eapply exec_sorted; eauto|exact Hr].
  - cbn [exec] in Hr. destruct (get_node k (nodes s)) as [n|] eqn:Hg.
    + set (m := max_id (n_trials n)) in *.
      assert (E : exec (CCreateTrial k (mk m)) s = (upd s k (mkN (n_study n) (n_trials n ++ [mk m]) (n_ops n) (n_es n)), Ok RUnit)).
      { cbn [exec]. rewrite Hg, Hid. unfold m. rewrite fresh_id_absent. reflexivity. }
      cbn [run] in Hr. rewrite E in Hr.
      eapply IHk; [| |exact Hr].
      * eapply exec_wf; [exact W|exact E].
      * eapply upd_sorted; [exact S|exact Hg|]. cbn [n_trials]. rewrite map_app. cbn [map]. apply sorted_snoc; [exact (S k n Hg)|].
        intros y Hy. apply in_map_iff in Hy. destruct Hy as [t [<- Ht]]. rewrite Hid. pose proof (max_id_bound _ _ Ht). unfold m. lia.
    + cbn [run] in Hr. injection Hr as <- _ _. auto.
  - eapply IH; eauto.
  - eapply IH; eauto.
  - eapply IH; eauto.
Qed.

Ltac is_step :=
  cbv zeta;
  match goal with
  | |- idsafe (Ret _) => apply is_ret
  | |- idsafe (Throw _) => apply is_throw
  | |- idsafe (Call (CMaxTrialId _) _) => fail 1
  | |- idsafe (Call _ _) => apply is_call; [reflexivity|intros ?]
  | |- idsafe (Acquire _ _) => apply is_acq
  | |- idsafe (Release _ _) => apply is_rel
  | |- idsafe (Pythia _ _) => apply is_py; intros ?
  | |- idsafe (expect_unit ?r _) => destruct r; cbn [expect_unit]
  | |- idsafe (match ?x with _ => _ end) => destruct x
  | |- idsafe (if ?b then _ else _) => destruct b
  end.

Lemma is_finish_op k o err out : idsafe (finish_op k o err out).
Proof. unfold finish_op. repeat is_step. Qed.
Lemma is_assign_loop k c : forall pool need out cont, (forall o, idsafe (cont o)) -> idsafe (assign_loop k c pool need out cont).
Proof.
  induction pool as [|t rest IH]; intros need out cont Hc; destruct need; cbn [assign_loop]; try apply Hc.
  repeat first [apply IH; exact Hc | is_step].
Qed.
Lemma is_decisions_loop k : forall ds cont, idsafe cont -> idsafe (decisions_loop k ds cont).
Proof.
  induction ds as [|[id b] rest IH]; intros cont Hc; cbn [decisions_loop]; [exact Hc|].
  repeat first [apply IH; exact Hc | is_step].
Qed.

Lemma is_create_loop k c : forall sugs need out cont, (forall l o, idsafe (cont l o)) -> idsafe (create_loop k c sugs need out cont).
Proof.
  induction sugs as [|p rest IH]; intros need out cont Hc; destruct need; cbn [create_loop]; try apply Hc.
  apply (is_maxcreate k (fun m => mkT (m + 1) ACTIVE c p [] [] [])
           (fun m r2 => expect_unit r2 (create_loop k c rest need (out ++ [mkT (m + 1) ACTIVE c p [] [] []]) cont))).
  - intros m. reflexivity.
  - intros m r'. destruct r'; cbn [expect_unit]; [apply IH; exact Hc|apply is_throw].
Qed.

Lemma is_remain_loop k : forall rem cont, idsafe cont -> idsafe (remain_loop k rem cont).
Proof.
  induction rem as [|p rest IH]; intros cont Hc; cbn [remain_loop]; [exact Hc|].
  apply (is_maxcreate k (fun m => mkT (m + 1) REQUESTED 0 p [] [] []) (fun m r2 => expect_unit r2 (remain_loop k rest cont))).
  - intros m. reflexivity.
  - intros m r'. destruct r'; cbn [expect_unit]; [apply IH; exact Hc|apply is_throw].
Qed.

Lemma is_es_compute k id : idsafe (es_compute k id).
Proof. unfold es_compute. repeat first [apply is_decisions_loop | is_step | (apply is_call; [reflexivity|intros ?])]. Qed.

Lemma is_create_trial k t : idsafe (h_create_trial k t).
Proof.
  unfold h_create_trial, guard_study. apply is_call; [reflexivity|]. intros r. destruct r as [[| st | | | | | | |]|e]; try apply is_throw.
  destruct (immutable st); [apply is_throw|]. apply is_acq.
  apply (is_maxcreate k (fun m => mkT (m + 1) (if tstate_eqb (t_state t) SUCCEEDED then SUCCEEDED else REQUESTED) 0 (t_params t) (t_meas t) (t_final t) (t_md t))
           (fun m r2 => expect_unit r2 (Release (LStudy k) (Ret (RpTrial (mkT (m + 1) (if tstate_eqb (t_state t) SUCCEEDED then SUCCEEDED else REQUESTED) 0 (t_params t) (t_meas t) (t_final t) (t_md t))))))).
  - intros m. reflexivity.
  - intros m r'. destruct r'; cbn [expect_unit]; repeat is_step.
Qed.

Lemma is_handler r : idsafe (handler r).
Proof.
  destruct r; cbn [handler]; try apply is_create_trial;
    unfold h_create_study, h_get_study, h_list_studies, h_delete_study, h_set_study_state, h_get_trial, h_suggest,
      h_list_trials, h_add_measurement, h_complete_trial, h_stop_trial, h_delete_trial, h_check_early_stop, h_update_metadata,
      h_list_optimal, h_get_operation, guard_study, with_trial;
    repeat first [apply is_finish_op | apply is_es_compute | apply is_assign_loop; intros ? | apply is_create_loop; intros ? ?
                 | apply is_remain_loop | is_step | (apply is_call; [reflexivity|intros ?])].
Qed.

Theorem sorted_step s ro : wf s -> ids_sorted s -> ids_sorted (step_state s ro) /\ wf (step_state s ro).
Proof.
  intros W S. destruct ro as [rp po]. unfold step_state, step. cbn [fst snd].
  destruct (run (handler rp) s po []) as [[s1 o1] tr1] eqn:Hr. cbn [fst]. eapply idsafe_run; [apply is_handler|exact W|exact S|exact Hr].
Qed.

Theorem reachable_sorted ops : ids_sorted (run_all ops init_state).
Proof.
  assert (H : forall s, wf s -> ids_sorted s -> ids_sorted (run_all ops s) /\ wf (run_all ops s)).
  { induction ops as [|ro rest IH]; intros s W S; [simpl; auto|]. unfold run_all. cbn [fold_left].
    destruct (sorted_step s ro W S) as [S1 W1]. apply IH; assumption. }
  apply H; [exact (proj1 wf_init)|]. intros k n Hn. simpl in Hn. discriminate.
Qed.
