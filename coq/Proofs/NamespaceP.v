From VZ Require Import Base.Prelude Model.Namespace.

(* virtual component under construction and finished components, for a loop state (join,out,cur) *)
Definition Vc (j : bool) (out : list str) (cur : str) : str :=
  if j then match out with o :: _ => o ++ COLON :: rev cur | [] => rev cur end else rev cur.
Definition Dn (j : bool) (out : list str) : list str := if j then tl out else out.

Lemma ends_bs_app_single f : ends_bs (f ++ [BSLASH]) = true.
Proof. unfold ends_bs. rewrite rev_app_distr. reflexivity. Qed.

Lemma removelast_app_single (f : str) x : removelast (f ++ [x]) = f.
Proof. rewrite removelast_app by discriminate. simpl. apply app_nil_r. Qed.

Lemma adv c : forall j out cur tail, (j = true -> out <> []) ->
  exists j' out' cur', (j' = true -> out' <> []) /\
    pgo j out (split_aux cur (escape c ++ tail)) = pgo j' out' (split_aux cur' tail) /\
    Vc j' out' cur' = Vc j out cur ++ c /\ Dn j' out' = Dn j out.
Proof.
  induction c as [|x t IH]; intros j out cur tail Hj.
  - exists j, out, cur. simpl. rewrite app_nil_r. auto.
  - cbn [escape]. destruct (N.eqb_spec x COLON) as [->|Hx].
    + cbn [app split_aux]. change (N.eqb BSLASH COLON) with false. cbn iota.
      cbn [split_aux]. rewrite N.eqb_refl. cbn [rev]. cbn [pgo].
      rewrite ends_bs_app_single, removelast_app_single.
      destruct j.
      * destruct out as [|o os]; [exfalso; apply Hj; auto|].
        destruct (IH true ((o ++ COLON :: rev cur) :: os) [] tail) as (j' & out' & cur' & H1 & H2 & H3 & H4);
          [discriminate|].
        exists j', out', cur'. repeat split; auto.
        rewrite H3. cbn [Vc rev]. rewrite <- !app_assoc. reflexivity.
      * destruct (IH true (rev cur :: out) [] tail) as (j' & out' & cur' & H1 & H2 & H3 & H4);
          [discriminate|].
        exists j', out', cur'. repeat split; auto.
        rewrite H3. cbn [Vc rev]. rewrite <- !app_assoc. reflexivity.
    + cbn [app split_aux]. destruct (N.eqb_spec x COLON) as [E|_]; [contradiction|].
      destruct (IH j out (x :: cur) tail Hj) as (j' & out' & cur' & H1 & H2 & H3 & H4).
      exists j', out', cur'. repeat split; auto.
      rewrite H3. unfold Vc. cbn [rev]. destruct j; [destruct out|]; cbn [app]; rewrite <- ?app_assoc; cbn [app]; rewrite <- ?app_assoc; reflexivity.
Qed.

Lemma ends_bs_Vc j out cur : (j = true -> out <> []) -> ends_bs (rev cur) = ends_bs (Vc j out cur).
Proof.
  intros Hj. unfold Vc. destruct j; auto. destruct out as [|o os]; auto.
  unfold ends_bs. rewrite rev_involutive, rev_app_distr. cbn [rev]. rewrite rev_involutive.
  destruct cur; reflexivity.
Qed.

Lemma finish_frag j out cur fs : (j = true -> out <> []) -> ends_bs (Vc j out cur) = false ->
  pgo j out (rev cur :: fs) = pgo false (Vc j out cur :: Dn j out) fs.
Proof.
  intros Hj He. rewrite <- (ends_bs_Vc j out cur Hj) in He. cbn [pgo]. rewrite He.
  destruct j; [destruct out as [|o os]; [exfalso; apply Hj; auto|]|]; reflexivity.
Qed.

Lemma comps_go t : forall c out, ns_ok (c :: t) = true ->
  pgo false out (split_aux [] (escape c ++ encode t)) = rev out ++ c :: t.
Proof.
  induction t as [|c2 t IH]; intros c out Hok; cbn [ns_ok forallb] in Hok;
    apply andb_prop in Hok; destruct Hok as [Hc Ht]; unfold comp_ok in Hc; apply negb_true_iff in Hc.
  - cbn [encode].
    destruct (adv c false out [] [] ltac:(discriminate)) as (j' & out' & cur' & H1 & H2 & H3 & H4).
    rewrite H2. cbn [split_aux]. rewrite finish_frag; auto.
    + rewrite H3, H4. cbn [pgo Vc Dn rev app]. reflexivity.
    + rewrite H3. exact Hc.
  - cbn [encode].
    destruct (adv c false out [] (COLON :: escape c2 ++ encode t) ltac:(discriminate))
      as (j' & out' & cur' & H1 & H2 & H3 & H4).
    rewrite H2. cbn [split_aux]. rewrite N.eqb_refl. rewrite finish_frag; auto.
    + rewrite H3, H4. cbn [Vc Dn rev app]. rewrite IH by exact Ht. cbn [rev]. rewrite <- app_assoc. reflexivity.
    + rewrite H3. exact Hc.
Qed.

Lemma parse_encode_ok ns : ns_ok ns = true -> parse (encode ns) = ns.
Proof.
  destruct ns as [|c t]; intros Hok; [reflexivity|].
  cbn [encode parse]. rewrite N.eqb_refl. unfold split_colon. rewrite comps_go by exact Hok. reflexivity.
Qed.

Lemma encode_injective_ok a b : ns_ok a = true -> ns_ok b = true -> encode a = encode b -> a = b.
Proof. intros Ha Hb E. rewrite <- (parse_encode_ok a Ha), <- (parse_encode_ok b Hb), E. reflexivity. Qed.

Definition bad_ns : list str := [[97; 92]]%N.
Lemma roundtrip_refuted : exists ns, parse (encode ns) <> ns.
Proof. exists bad_ns. vm_compute. discriminate. Qed.

Lemma injective_refuted : exists a b, a <> b /\ encode a = encode b.
Proof. exists [[97; 92]; [98]]%N, [[97; 58; 98]]%N. split; [discriminate|reflexivity]. Qed.

Lemma ns_ok_nonvacuous : ns_ok [[97; 58; 92; 98]; []; [58]; [92; 58]]%N = true.
Proof. reflexivity. Qed.
