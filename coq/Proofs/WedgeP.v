(* C06: no RPC that ends normally leaves a suggestion operation unfinished (the state invariant behind "never wedged"). *)
From VZ Require Import Base.Prelude Base.XFloat Model.Metadata Model.Service.
From Coq Require Import Lia.

Definition opkey (o : sop) : N * N := (o_client o, o_num o).
Definition all_done (s : state) : Prop := forall k n o, In (k, n) (nodes s) -> In o (n_ops n) -> o_done o = true.
(* everything is finished except, possibly, operations (c, num) of study k *)
Definition pend (k : skey) (c num : N) (s : state) : Prop :=
  forall k' n o, In (k', n) (nodes s) -> In o (n_ops n) -> o_done o = true \/ (k' = k /\ opkey o = (c, num)).
(* study keys are unique, operation keys are unique per study *)
Definition wf (s : state) : Prop :=
  NoDup (map fst (nodes s)) /\ forall k n, In (k, n) (nodes s) -> NoDup (map opkey (n_ops n)).

(* ---------- lists *)
Lemma skey_eqb_eq a b : skey_eqb a b = true <-> a = b.
Proof.
  destruct a as [a1 a2], b as [b1 b2]. unfold skey_eqb. simpl. rewrite andb_true_iff, !N.eqb_eq. split; [intros [-> ->]; reflexivity|intros [= -> ->]; auto].
Qed.
Lemma skey_eqb_refl a : skey_eqb a a = true.
Proof. apply skey_eqb_eq. reflexivity. Qed.

Lemma get_node_In k l n : get_node k l = Some n -> In (k, n) l.
Proof.
  induction l as [|[k' n'] t IH]; simpl; [discriminate|]. destruct (skey_eqb k' k) eqn:E.
  - intros [= ->]. apply skey_eqb_eq in E. subst. left. reflexivity.
  - intros H. right. apply IH. exact H.
Qed.
Lemma get_node_None k l : get_node k l = None -> ~ In k (map fst l).
Proof.
  induction l as [|[k' n'] t IH]; simpl; [tauto|]. destruct (skey_eqb k' k) eqn:E; [discriminate|].
  intros H [Hk|Hk]; [subst; rewrite skey_eqb_refl in E; discriminate|exact (IH H Hk)].
Qed.
Lemma In_get_node k n l : NoDup (map fst l) -> In (k, n) l -> get_node k l = Some n.
Proof.
  induction l as [|[k' n'] t IH]; simpl; [tauto|]. intros Hnd [H|H].
  - injection H as -> ->. rewrite skey_eqb_refl. reflexivity.
  - inversion Hnd; subst. destruct (skey_eqb k' k) eqn:E.
    + apply skey_eqb_eq in E. subst. exfalso. apply H2. apply in_map_iff. exists (k, n). auto.
    + apply IH; assumption.
Qed.
Lemma In_set_node k n l k' n' : In (k', n') (set_node k n l) -> (k' = k /\ n' = n) \/ In (k', n') l.
Proof.
  induction l as [|[k0 n0] t IH]; simpl; [tauto|]. destruct (skey_eqb k0 k) eqn:E.
  - intros [H|H]; [injection H as <- <-; apply skey_eqb_eq in E; auto|auto].
  - intros [H|H]; [auto|]. destruct (IH H); auto.
Qed.
Lemma set_node_keys k n l : map fst (set_node k n l) = map fst l.
Proof. induction l as [|[k0 n0] t IH]; simpl; [reflexivity|]. destruct (skey_eqb k0 k); simpl; [reflexivity|rewrite IH; reflexivity]. Qed.
Lemma In_del_node k l x : In x (del_node k l) -> In x l.
Proof. induction l as [|[k0 n0] t IH]; simpl; [tauto|]. destruct (skey_eqb k0 k); simpl; [auto|intros [H|H]; auto]. Qed.
Lemma del_node_keys_NoDup k l : NoDup (map fst l) -> NoDup (map fst (del_node k l)).
Proof.
  induction l as [|[k0 n0] t IH]; simpl; [auto|]. intros H. inversion H; subst. destruct (skey_eqb k0 k); simpl; [assumption|].
  constructor; [|apply IH; assumption]. intros Hin. apply H2. apply in_map_iff in Hin. destruct Hin as [x [Hx1 Hx2]].
  apply in_map_iff. exists x. split; [exact Hx1|]. apply In_del_node in Hx2. exact Hx2.
Qed.

Lemma op_is_key c n o : op_is c n o = true <-> opkey o = (c, n).
Proof. unfold op_is, opkey. rewrite andb_true_iff, !N.eqb_eq. split; [intros [-> ->]; reflexivity|intros [= -> ->]; auto]. Qed.
Lemma In_set_op o l x : In x (set_op o l) -> x = o \/ In x l.
Proof.
  induction l as [|o' r IH]; simpl; [tauto|]. destruct (op_is (o_client o) (o_num o) o'); simpl; intros [H|H]; auto.
  destruct (IH H); auto.
Qed.
Lemma set_op_keys o l : map opkey (set_op o l) = map opkey l.
Proof.
  induction l as [|o' r IH]; simpl; [reflexivity|]. destruct (op_is (o_client o) (o_num o) o') eqn:E; simpl.
  - apply op_is_key in E. unfold opkey at 1. rewrite E. reflexivity.
  - rewrite IH. reflexivity.
Qed.
Lemma In_set_op_unique o l x : NoDup (map opkey l) -> In x (set_op o l) -> x = o \/ (In x l /\ opkey x <> opkey o).
Proof.
  induction l as [|o' r IH]; simpl; [tauto|]. intros Hnd. inversion Hnd; subst.
  destruct (op_is (o_client o) (o_num o) o') eqn:E; simpl.
  - apply op_is_key in E. intros [H|H]; [auto|]. right. split; [auto|]. intros Hk. apply H1. rewrite E. fold (opkey o). rewrite <- Hk.
    apply in_map. exact H.
  - intros [H|H].
    + subst x. right. split; [auto|]. intros Hk. assert (op_is (o_client o) (o_num o) o' = true) by (apply op_is_key; exact Hk). congruence.
    + destruct (IH H2 H) as [Hx|[Hx1 Hx2]]; auto.
Qed.
Lemma existsb_op_is c n l : existsb (op_is c n) l = false -> ~ In (c, n) (map opkey l).
Proof.
  induction l as [|o r IH]; simpl; [tauto|]. intros H. apply orb_false_iff in H. destruct H as [H1 H2].
  intros [Hk|Hk]; [|exact (IH H2 Hk)]. assert (op_is c n o = true) by (apply op_is_key; exact Hk). congruence.
Qed.

(* ---------- datastore calls *)
Definition sop_free (c : call) : bool := match c with CCreateSop _ _ | CUpdateSop _ _ => false | _ => true end.
(* every stored operation of s' was already stored in s, under the same study key *)
Definition ops_sub (s s' : state) : Prop :=
  forall k' n' o, In (k', n') (nodes s') -> In o (n_ops n') -> exists n, In (k', n) (nodes s) /\ In o (n_ops n).

Lemma ops_sub_refl s : ops_sub s s.
Proof. intros k n o H1 H2. exists n. auto. Qed.
Lemma ops_sub_trans a b c : ops_sub a b -> ops_sub b c -> ops_sub a c.
Proof. intros H1 H2 k n o Hn Ho. destruct (H2 k n o Hn Ho) as [n1 [Hn1 Ho1]]. exact (H1 k n1 o Hn1 Ho1). Qed.

(* updating a node without touching its operations *)
Lemma upd_same_ops s k n n' : get_node k (nodes s) = Some n -> n_ops n' = n_ops n -> ops_sub s (upd s k n').
Proof.
  intros Hg Ho k' m o Hin Hop. unfold upd in Hin. simpl in Hin. apply In_set_node in Hin. destruct Hin as [[-> ->]|Hin].
  - exists n. split; [apply get_node_In; exact Hg|rewrite <- Ho; exact Hop].
  - exists m. auto.
Qed.

Ltac exec_cases :=
  repeat match goal with
  | |- context [match get_node ?k ?l with _ => _ end] => destruct (get_node k l) eqn:?
  | |- context [match get_trial ?i ?l with _ => _ end] => destruct (get_trial i l) eqn:?
  | |- context [if ?b then _ else _] => destruct b eqn:?
  | |- context [match filter ?f ?l with _ => _ end] => destruct (filter f l) eqn:?
  | |- context [match find ?f ?l with _ => _ end] => destruct (find f l) eqn:?
  end.

Lemma exec_ops_sub c s s' r : sop_free c = true -> exec c s = (s', r) -> ops_sub s s'.
Proof.
  intros Hf H. destruct c; simpl in Hf; try discriminate; simpl in H; revert H; exec_cases; intros [= <- <-];
    try apply ops_sub_refl; try (eapply upd_same_ops; [eassumption|reflexivity]).
  - (* create study *) intros k' n' o Hin Ho. simpl in Hin. apply in_app_or in Hin. destruct Hin as [Hin|[Hin|[]]].
    + exists n'. auto.
    + injection Hin as <- <-. simpl in Ho. destruct Ho.
  - intros k' n' o Hin Ho. simpl in Hin. apply in_app_or in Hin. destruct Hin as [Hin|[Hin|[]]].
    + exists n'. auto.
    + injection Hin as <- <-. simpl in Ho. destruct Ho.
  - (* delete study *) intros k' n' o Hin Ho. simpl in Hin. apply In_del_node in Hin. exists n'. auto.
Qed.

Lemma NoDup_app_single {A} (l : list A) x : NoDup l -> ~ In x l -> NoDup (l ++ [x]).
Proof.
  induction l as [|a r IH]; simpl; intros Hnd Hx; [constructor; [tauto|constructor]|].
  inversion Hnd; subst. constructor.
  - intros Hin. apply in_app_or in Hin. destruct Hin as [Hin|[Hin|[]]]; [contradiction|]. subst. apply Hx. left. reflexivity.
  - apply IH; [assumption|]. intros Hin. apply Hx. right. exact Hin.
Qed.

Lemma upd_wf s k n n' : wf s -> get_node k (nodes s) = Some n -> NoDup (map opkey (n_ops n')) -> wf (upd s k n').
Proof.
  intros [W1 W2] Hg Hnd. split.
  - unfold upd. simpl. rewrite set_node_keys. exact W1.
  - intros k' m Hin. unfold upd in Hin. simpl in Hin. apply In_set_node in Hin. destruct Hin as [[-> ->]|Hin]; [exact Hnd|eapply W2; eauto].
Qed.

Lemma exec_wf c s s' r : wf s -> exec c s = (s', r) -> wf s'.
Proof.
  intros W H. pose proof W as [W1 W2].
  destruct c; simpl in H; revert H; exec_cases; intros [= <- <-]; try exact W;
    try (eapply upd_wf; [exact W|eassumption|]; simpl;
         match goal with Hg : get_node _ _ = Some ?n |- _ => try exact (W2 _ _ (get_node_In _ _ _ Hg)) end).
  - (* create study, new owner or not *) split; simpl.
    + rewrite map_app. simpl. apply NoDup_app_single; [exact W1|]. apply get_node_None. assumption.
    + intros k' n' Hin. apply in_app_or in Hin. destruct Hin as [Hin|[Hin|[]]]; [eapply W2; eauto|]. injection Hin as <- <-. constructor.
  - split; simpl.
    + rewrite map_app. simpl. apply NoDup_app_single; [exact W1|]. apply get_node_None. assumption.
    + intros k' n' Hin. apply in_app_or in Hin. destruct Hin as [Hin|[Hin|[]]]; [eapply W2; eauto|]. injection Hin as <- <-. constructor.
  - (* delete study *) split; simpl; [apply del_node_keys_NoDup; exact W1|]. intros k' n' Hin. apply In_del_node in Hin. eapply W2; eauto.
  - (* create sop *) rewrite map_app. simpl. apply NoDup_app_single.
    + match goal with Hg : get_node _ _ = Some ?n |- _ => exact (W2 _ _ (get_node_In _ _ _ Hg)) end.
    + apply existsb_op_is. assumption.
  - (* update sop *) rewrite set_op_keys. match goal with Hg : get_node _ _ = Some ?n |- _ => exact (W2 _ _ (get_node_In _ _ _ Hg)) end.
Qed.

Lemma In_set_node_strict k n l k' n' : NoDup (map fst l) -> In (k', n') (set_node k n l) ->
  (k' = k /\ n' = n) \/ (k' <> k /\ In (k', n') l).
Proof.
  induction l as [|[k0 n0] t IH]; simpl; [tauto|]. intros Hnd. inversion Hnd; subst. destruct (skey_eqb k0 k) eqn:E.
  - apply skey_eqb_eq in E. subst k0. intros [H|H]; [injection H as <- <-; auto|].
    right. split; [|auto]. intros ->. apply H1. apply in_map_iff. exists (k, n'). auto.
  - intros [H|H].
    + injection H as <- <-. right. split; [|auto]. intros ->. rewrite skey_eqb_refl in E. discriminate.
    + destruct (IH H2 H) as [?|[? ?]]; auto.
Qed.

Lemma all_done_sub s s' : all_done s -> ops_sub s s' -> all_done s'.
Proof. intros H Hs k n o Hn Ho. destruct (Hs k n o Hn Ho) as [n0 [H1 H2]]. exact (H k n0 o H1 H2). Qed.
Lemma pend_sub k c num s s' : pend k c num s -> ops_sub s s' -> pend k c num s'.
Proof. intros H Hs k' n o Hn Ho. destruct (Hs k' n o Hn Ho) as [n0 [H1 H2]]. exact (H k' n0 o H1 H2). Qed.
Lemma all_done_pend k c num s : all_done s -> pend k c num s.
Proof. intros H k' n o Hn Ho. left. exact (H k' n o Hn Ho). Qed.

(* ---------- programs that never write a suggestion operation *)
Inductive nosop : prog -> Prop :=
| ns_ret r : nosop (Ret r)
| ns_throw e : nosop (Throw e)
| ns_call c k : sop_free c = true -> (forall r, nosop (k r)) -> nosop (Call c k)
| ns_acq l p : nosop p -> nosop (Acquire l p)
| ns_rel l p : nosop p -> nosop (Release l p)
| ns_py q k : (forall po, nosop (k po)) -> nosop (Pythia q k).

Lemma nosop_run p : nosop p -> forall s po tr s' o tr', run p s po tr = (s', o, tr') -> ops_sub s s' /\ (wf s -> wf s').
Proof.
  induction 1 as [r|e|c k Hc Hk IH|l p Hp IH|l p Hp IH|q k Hk IH]; intros s po tr s' o tr' Hr; simpl in Hr.
  - injection Hr as <- _ _. split; [apply ops_sub_refl|auto].
  - injection Hr as <- _ _. split; [apply ops_sub_refl|auto].
  - destruct (exec c s) as [s1 r] eqn:E. destruct (IH r _ _ _ _ _ _ Hr) as [H1 H2].
    split; [eapply ops_sub_trans; [eapply exec_ops_sub; eauto|exact H1]|intros W; apply H2; eapply exec_wf; eauto].
  - eapply IH; eauto.
  - eapply IH; eauto.
  - eapply IH; eauto.
Qed.

(* ---------- programs that finish the pending operation (c, num) of study k on every normally ending path *)
Inductive fin (k : skey) (c num : N) : prog -> Prop :=
| fin_throw e : fin k c num (Throw e)
| fin_finish o err out : o_client o = c -> o_num o = num -> fin k c num (finish_op k o err out)
| fin_call cl kont : sop_free cl = true -> (forall r, fin k c num (kont r)) -> fin k c num (Call cl kont)
| fin_acq l p : fin k c num p -> fin k c num (Acquire l p)
| fin_rel l p : fin k c num p -> fin k c num (Release l p)
| fin_py q kont : (forall po, fin k c num (kont po)) -> fin k c num (Pythia q kont).

Lemma finish_op_run k o err out s po tr s' r tr' : wf s -> pend k (o_client o) (o_num o) s ->
  run (finish_op k o err out) s po tr = (s', Done r, tr') -> all_done s' /\ wf s'.
Proof.
  intros W P Hr. unfold finish_op in Hr. cbn [run exec] in Hr.
  destruct (get_node k (nodes s)) as [n|] eqn:Hg; [|cbn [expect_unit run] in Hr; discriminate].
  cbn [o_client o_num] in Hr.
  destruct (existsb (op_is (o_client o) (o_num o)) (n_ops n)) eqn:Ex; cbn [expect_unit run] in Hr; [|discriminate].
  injection Hr as <- _ _. pose proof W as [W1 W2].
  set (o' := mkOp (o_client o) (o_num o) true err out).
  split.
  - intros k' m x Hin Hx. unfold upd in Hin. cbn [nodes] in Hin.
    apply (In_set_node_strict _ _ _ _ _ W1) in Hin. destruct Hin as [[-> ->]|[Hne Hin]].
    + cbn [n_ops] in Hx. apply (In_set_op_unique o' (n_ops n) x (W2 _ _ (get_node_In _ _ _ Hg))) in Hx.
      destruct Hx as [->|[Hx1 Hx2]]; [reflexivity|].
      destruct (P k n x (get_node_In _ _ _ Hg) Hx1) as [Hd|[_ Hk]]; [exact Hd|]. exfalso. apply Hx2. rewrite Hk. reflexivity.
    + destruct (P k' m x Hin Hx) as [Hd|[Hk _]]; [exact Hd|contradiction].
  - eapply upd_wf; [exact W|exact Hg|]. cbn [n_ops]. rewrite set_op_keys. exact (W2 _ _ (get_node_In _ _ _ Hg)).
Qed.

Lemma fin_run k c num p : fin k c num p -> forall s po tr s' r tr', wf s -> pend k c num s ->
  run p s po tr = (s', Done r, tr') -> all_done s' /\ wf s'.
Proof.
  induction 1 as [e|o err out Hc Hn|cl kont Hf Hk IH|l p Hp IH|l p Hp IH|q kont Hk IH]; intros s po tr s' r tr' W P Hr.
  - simpl in Hr. discriminate.
  - subst. eapply finish_op_run; eauto.
  - simpl in Hr. destruct (exec cl s) as [s1 r1] eqn:E. eapply IH; [eapply exec_wf; eauto| |exact Hr].
    eapply pend_sub; [exact P|eapply exec_ops_sub; eauto].
  - simpl in Hr. eapply IH; eauto.
  - simpl in Hr. eapply IH; eauto.
  - simpl in Hr. eapply IH; eauto.
Qed.

(* ---------- the handlers *)
Ltac ns_step :=
  cbv zeta;
  match goal with
  | |- nosop (Ret _) => apply ns_ret
  | |- nosop (Throw _) => apply ns_throw
  | |- nosop (Call _ _) => apply ns_call; [reflexivity|intros ?]
  | |- nosop (Acquire _ _) => apply ns_acq
  | |- nosop (Release _ _) => apply ns_rel
  | |- nosop (Pythia _ _) => apply ns_py; intros ?
  | |- nosop (expect_unit ?r _) => destruct r; cbn [expect_unit]
  | |- nosop (match ?x with _ => _ end) => destruct x
  | |- nosop (if ?b then _ else _) => destruct b
  end.

Lemma nosop_decisions_loop k ds cont : nosop cont -> nosop (decisions_loop k ds cont).
Proof.
  intros Hc. induction ds as [|[id stop] rest IH]; cbn [decisions_loop]; [exact Hc|].
  repeat first [exact IH | ns_step].
Qed.

Lemma nosop_es_compute k id : nosop (es_compute k id).
Proof.
  unfold es_compute. repeat first [apply nosop_decisions_loop | ns_step].
Qed.

Lemma nosop_handler r : (forall k c n, r <> SuggestTrials k c n) -> nosop (handler r).
Proof.
  intros Hr. destruct r; cbn [handler]; try (exfalso; eapply Hr; reflexivity);
    unfold h_create_study, h_get_study, h_list_studies, h_delete_study, h_set_study_state, h_create_trial, h_get_trial,
      h_list_trials, h_add_measurement, h_complete_trial, h_stop_trial, h_delete_trial, h_check_early_stop, h_update_metadata,
      h_list_optimal, h_get_operation, guard_study, with_trial;
    repeat first [apply nosop_es_compute | ns_step].
Qed.

Ltac fin_step :=
  cbv zeta;
  match goal with
  | |- fin _ _ _ (Throw _) => apply fin_throw
  | |- fin _ _ _ (finish_op _ _ _ _) => apply fin_finish; reflexivity
  | |- fin _ _ _ (Call _ _) => apply fin_call; [reflexivity|intros ?]
  | |- fin _ _ _ (Acquire _ _) => apply fin_acq
  | |- fin _ _ _ (Release _ _) => apply fin_rel
  | |- fin _ _ _ (Pythia _ _) => apply fin_py; intros ?
  | |- fin _ _ _ (expect_unit ?r _) => destruct r; cbn [expect_unit]
  | |- fin _ _ _ (match ?x with _ => _ end) => destruct x
  | |- fin _ _ _ (if ?b then _ else _) => destruct b
  end.

Lemma fin_assign_loop k c num cl : forall pool need out cont, (forall o, fin k c num (cont o)) ->
  fin k c num (assign_loop k cl pool need out cont).
Proof.
  induction pool as [|t rest IH]; intros need out cont Hc; destruct need; cbn [assign_loop]; try apply Hc.
  repeat first [apply IH; exact Hc | fin_step].
Qed.
Lemma fin_create_loop k c num cl : forall sugs need out cont, (forall l o, fin k c num (cont l o)) ->
  fin k c num (create_loop k cl sugs need out cont).
Proof.
  induction sugs as [|p rest IH]; intros need out cont Hc; destruct need; cbn [create_loop]; try apply Hc.
  repeat first [apply IH; exact Hc | fin_step].
Qed.
Lemma fin_remain_loop k c num : forall rem cont, fin k c num cont -> fin k c num (remain_loop k rem cont).
Proof.
  induction rem as [|p rest IH]; intros cont Hc; cbn [remain_loop]; [exact Hc|].
  repeat first [apply IH; exact Hc | fin_step].
Qed.

(* what SuggestTrials does once its operation record exists *)
Definition suggest_tail (k : skey) (c : N) (count : nat) (o : sop) : prog :=
  Call (CListTrials k) (fun r4 => match r4 with
   | Ok (RTrials all) =>
     let mine := filter (fun t => tstate_eqb (t_state t) ACTIVE && N.eqb (t_client t) c) all in
     if Nat.leb count (length mine) then finish_op k o false (firstn count mine)
     else
      Acquire (LStudy k) (Call (CListTrials k) (fun r4' => match r4' with
      | Ok (RTrials all') =>
       let pool := filter (fun t => tstate_eqb (t_state t) REQUESTED) all' in
       assign_loop k c (rev pool) (count - length mine) mine (fun out => Release (LStudy k) (
         if Nat.eqb (length out) count then finish_op k o false out
         else
           Call (CMaxTrialId k) (fun r5 => match r5 with
            | Err e => Throw e
            | Ok _ =>
              Pythia (PSuggest k (count - length out)) (fun po =>
                match po with
                | PDeliver sugs smd tmd =>
                  Acquire (LStudy k) (Call (CUpdateMd k smd tmd) (fun r6 => match r6 with
                    | Err ENotFound | Err EKey => Release (LStudy k) (finish_op k o true [])
                    | Err e => Throw e
                    | Ok _ => Release (LStudy k) (Acquire (LStudy k) (
                      create_loop k c (rev sugs) (count - length out) out (fun left_rev out' =>
                        remain_loop k (rev left_rev) (Release (LStudy k) (finish_op k o false out')))))
                    end))
                | PFail _ => finish_op k o true []
                | PDecide _ _ _ => Throw EOther
                end)
            end)))
      | Ok _ => Throw EOther | Err e => Throw e end))
   | Ok _ => Throw EOther | Err e => Throw e end).

Lemma fin_suggest_tail k c count o : fin k (o_client o) (o_num o) (suggest_tail k c count o).
Proof.
  unfold suggest_tail.
  repeat first [apply fin_assign_loop; intros ? | apply fin_create_loop; intros ? ? | apply fin_remain_loop | fin_step].
Qed.

Lemma h_suggest_shape k c count :
  h_suggest k c count =
  guard_study k
   (Acquire (LOp k)
    (Call (CLoadStudy k) (fun r0 => match r0 with
     | Err e => Throw e
     | Ok _ =>
      Call (CListSops k c) (fun r1 =>
       match r1 with
       | Err ENotFound | Ok (RSops _) =>
        let active := match r1 with Ok (RSops l) => filter (fun o => negb (o_done o)) l | _ => [] end in
        match active with
        | o :: _ => Release (LOp k) (Ret (RpOp o))
        | [] =>
         Call (CMaxSopNum k c) (fun r2 =>
          match r2 with
          | Err ENotFound | Ok (RNum _) =>
           let old := match r2 with Ok (RNum n) => n | _ => 0%N end in
           let o := mkOp c (old + 1) false false [] in
           Call (CCreateSop k o) (fun r3 => expect_unit r3 (suggest_tail k c count o))
          | Ok _ => Throw EOther
          | Err e => Throw e
          end)
        end
       | Ok _ => Throw EOther
       | Err e => Throw e
       end)
     end))).
Proof. reflexivity. Qed.

Lemma filter_undone_nil (l : list sop) : (forall o, In o l -> o_done o = true) -> filter (fun o => negb (o_done o)) l = [].
Proof.
  induction l as [|o r IH]; simpl; intros H; [reflexivity|]. rewrite (H o (or_introl eq_refl)). simpl. apply IH. intros x Hx. apply H. right. exact Hx.
Qed.

Lemma suggest_run k c count s po s' r tr' : wf s -> all_done s ->
  run (h_suggest k c count) s po [] = (s', Done r, tr') -> all_done s' /\ wf s'.
Proof.
  intros W A. rewrite h_suggest_shape. unfold guard_study. cbn [run exec].
  destruct (get_node k (nodes s)) as [n|] eqn:Hg; [|cbn [run]; discriminate].
  destruct (immutable (n_study n)); [cbn [run]; discriminate|].
  cbn [run exec]. rewrite Hg. cbn [run exec]. rewrite Hg.
  assert (Hdone : forall o, In o (filter (fun o => N.eqb (o_client o) c) (n_ops n)) -> o_done o = true).
  { intros o Ho. apply filter_In in Ho. destruct Ho as [Ho _]. exact (A k n o (get_node_In _ _ _ Hg) Ho). }
  set (mine := filter (fun o => N.eqb (o_client o) c) (n_ops n)) in *.
  assert (Hcreate : forall old tr,
    run (Call (CCreateSop k (mkOp c (old + 1) false false [])) (fun r3 => expect_unit r3 (suggest_tail k c count (mkOp c (old + 1) false false []))))
        s po tr = (s', Done r, tr') -> all_done s' /\ wf s').
  { intros old tr Hr. cbn [run exec] in Hr. rewrite Hg in Hr. cbn [o_client o_num] in Hr.
    destruct (existsb (op_is c (old + 1)) (n_ops n)) eqn:Ex; cbn [expect_unit run] in Hr; [discriminate|].
    set (o := mkOp c (old + 1) false false []) in *.
    eapply (fin_run k c (old + 1)); [apply (fin_suggest_tail k c count o)| | |exact Hr].
    - eapply upd_wf; [exact W|exact Hg|]. cbn [n_ops]. rewrite map_app. simpl. apply NoDup_app_single.
      + destruct W as [_ W2]. exact (W2 _ _ (get_node_In _ _ _ Hg)).
      + apply existsb_op_is. exact Ex.
    - intros k' m x Hin Hx. unfold upd in Hin. cbn [nodes] in Hin. destruct W as [W1 W2].
      apply (In_set_node_strict _ _ _ _ _ W1) in Hin. destruct Hin as [[-> ->]|[Hne Hin]].
      + cbn [n_ops] in Hx. apply in_app_or in Hx. destruct Hx as [Hx|[<-|[]]].
        * left. exact (A k n x (get_node_In _ _ _ Hg) Hx).
        * right. split; reflexivity.
      + left. exact (A k' m x Hin Hx). }
  destruct mine as [|o0 rest] eqn:Em.
  - (* no operation of this worker yet *)
    cbn [run exec]. rewrite Hg. fold mine. rewrite Em. intros Hr. exact (Hcreate 0%N _ Hr).
  - cbn zeta. rewrite (filter_undone_nil (o0 :: rest) Hdone).
    cbn [run exec]. rewrite Hg. fold mine. rewrite Em. intros Hr. exact (Hcreate _ _ Hr).
Qed.

(* ---------- the theorem: an RPC that ends normally leaves no suggestion operation unfinished *)
Theorem never_wedged s ro s' r : wf s -> all_done s -> step s ro = (s', Done r) -> all_done s' /\ wf s'.
Proof.
  intros W A Hs. destruct ro as [rp po]. unfold step in Hs. cbn [fst snd] in Hs.
  destruct (run (handler rp) s po []) as [[s1 o1] tr1] eqn:Hr. injection Hs as <- ->.
  assert (Hcase : (exists k c n, rp = SuggestTrials k c n) \/ (forall k c n, rp <> SuggestTrials k c n)).
  { destruct rp; try (right; intros; discriminate). left. eauto. }
  destruct Hcase as [[k [c [n ->]]]|Hne].
  - cbn [handler] in Hr. eapply suggest_run; eauto.
  - destruct (nosop_run _ (nosop_handler rp Hne) _ _ _ _ _ _ Hr) as [H1 H2]. split; [eapply all_done_sub; eauto|auto].
Qed.

Lemma wf_init : wf init_state /\ all_done init_state.
Proof. split; [split; [constructor|intros k n []]|intros k n o []]. Qed.

Definition is_done (o : outcome) : bool := match o with Done _ => true | Failed _ => false end.

(* along any history in which every RPC ended normally, no suggestion operation is left unfinished *)
Theorem never_wedged_history : forall ops s, wf s -> all_done s ->
  forallb is_done (run_outcomes ops s) = true -> all_done (run_all ops s) /\ wf (run_all ops s).
Proof.
  induction ops as [|ro rest IH]; intros s W A H; [simpl; auto|].
  cbn [run_outcomes] in H. destruct (step s ro) as [s1 o1] eqn:E. cbn [forallb] in H.
  apply andb_true_iff in H. destruct H as [H1 H2]. destruct o1 as [r|e]; [|discriminate].
  destruct (never_wedged s ro s1 r W A E) as [A1 W1].
  assert (Hs : step_state s ro = s1) by (unfold step_state; rewrite E; reflexivity).
  unfold run_all. cbn [fold_left]. rewrite Hs. apply IH; assumption.
Qed.
