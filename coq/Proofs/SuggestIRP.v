(* The program denoted by the block sequence regenerated from SuggestTrials is the model's h_suggest *)
From VZ Require Import Base.Prelude Base.XFloat Model.Metadata Model.Service Model.HandlerIR Model.SuggestIR Gen.SuggestSrc Proofs.HandlerIRP.
Import ListNotations.

Ltac dres r := destruct r as [r|?]; [destruct r|]; cbn beta iota; try (apply peq_throw).

Lemma peq_assign : forall k c pool need out f g, (forall o, peq (f o) (g o)) ->
  peq (assign_loop k c pool need out f) (assign_loop k c pool need out g).
Proof.
  intros k c pool. induction pool as [|t rest IH]; intros need out f g H; destruct need; cbn [assign_loop]; auto.
  apply peq_call_eq; [reflexivity|]. intros r. destruct r as [?|?]; cbn [expect_unit]; [apply IH; assumption|apply peq_throw].
Qed.
Lemma peq_create : forall k c sugs need out f g, (forall l o, peq (f l o) (g l o)) ->
  peq (create_loop k c sugs need out f) (create_loop k c sugs need out g).
Proof.
  intros k c sugs. induction sugs as [|p rest IH]; intros need out f g H; destruct need; cbn [create_loop]; auto.
  apply peq_call_eq; [reflexivity|]. intros r. dres r.
  apply peq_call_eq; [reflexivity|]. intros r2. destruct r2 as [?|?]; cbn [expect_unit]; [apply IH; assumption|apply peq_throw].
Qed.
Lemma peq_remain : forall k l p q, peq p q -> peq (remain_loop k l p) (remain_loop k l q).
Proof.
  intros k l. induction l as [|x rest IH]; intros p q H; cbn [remain_loop]; auto.
  apply peq_call_eq; [reflexivity|]. intros r. dres r.
  apply peq_call_eq; [reflexivity|]. intros r2. destruct r2 as [?|?]; cbn [expect_unit]; [apply IH; assumption|apply peq_throw].
Qed.


Ltac callstep := apply peq_call_eq; [reflexivity|]; let r := fresh "r" in intros r.
Ltac finish_tac := unfold finish_op; callstep;
  match goal with r : res rsp |- _ => destruct r as [?|?]; cbn [expect_unit]; [apply peq_rel; apply peq_ret|apply peq_throw] end.

(* everything after the operation record has been created *)
Ltac tail :=
  callstep; match goal with r : res rsp |- _ => destruct r as [?|?]; cbn [expect_unit]; [|apply peq_throw] end;
  callstep; match goal with r : res rsp |- _ => dres r end;
  match goal with |- peq (if ?b then _ else _) _ => destruct b end; [finish_tac|];
  apply peq_acq; callstep; match goal with r : res rsp |- _ => dres r end;
  apply peq_assign; intros out; apply peq_rel;
  match goal with |- peq (if ?b then _ else _) _ => destruct b end; [finish_tac|];
  callstep; match goal with r : res rsp |- _ => destruct r as [?|?]; [|apply peq_throw] end;
  apply peq_pythia; intros po; destruct po as [sugs smd tmd| |]; [|apply peq_throw|finish_tac];
  apply peq_acq; callstep;
  match goal with r : res rsp |- _ => destruct r as [?|e]; [|destruct e]; try (apply peq_throw); try (apply peq_rel; finish_tac) end;
  apply peq_rel; apply peq_acq; apply peq_create; intros left_rev out'; rewrite ?rev_involutive;
  apply peq_remain; apply peq_rel; finish_tac.

Theorem src_suggest_is_h_suggest : forall k c count, peq (suggest_of src_SuggestTrials k c count) (h_suggest k c count).
Proof.
  intros k c count. unfold suggest_of, src_SuggestTrials.
  lazy beta iota zeta delta [uinterp u_ops u_old u_op u_mine u_out u_pool u_sugs u_smd u_tmd uenv0 with_op].
  unfold h_suggest, guard_study.
  apply peq_call_eq; [reflexivity|]. intros r. dres r.
  destruct (immutable s); [apply peq_throw|]. apply peq_acq.
  apply peq_call_eq; [reflexivity|]. intros r0. destruct r0 as [?|?]; [|apply peq_throw].
  apply peq_call_eq; [reflexivity|]. intros r1.
  destruct r1 as [a1|e1]; [destruct a1|destruct e1]; cbn beta iota; try (apply peq_throw).
  - (* Ok (RSops l) *)
    match goal with |- context [filter ?f ?l] => destruct (filter f l) as [|o ops] end; [|apply peq_rel; apply peq_ret].
    callstep. destruct r as [a2|e2]; [destruct a2|destruct e2]; cbn beta iota; try (apply peq_throw).
    + tail.
    + tail.
  - (* Err ENotFound *)
    callstep. destruct r as [a2|e2]; [destruct a2|destruct e2]; cbn beta iota; try (apply peq_throw).
    + tail.
    + tail.
Qed.

