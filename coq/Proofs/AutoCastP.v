From Coq Require Import QArith Qround Lia.
From VZ Require Import Base.Prelude Model.External Model.AutoCast Gen.AutoCastSrc.

Lemma src_autocast_is_model : forall flag fv, interp_autocast src_autocast flag fv = declared_ext flag fv.
Proof. intros flag fv. unfold interp_autocast, declared_ext, src_autocast; simpl. reflexivity. Qed.

Lemma qtrunc_of_integral q : q_integral q = true -> inject_Z (qtrunc q) == q.
Proof.
  unfold q_integral, qtrunc. intros H. apply Qeq_bool_iff in H.
  destruct (Qle_bool 0 q); [symmetry; exact H|].
  unfold Qceiling.
  assert (Hn : - q == inject_Z (- Qfloor q)) by (rewrite inject_Z_opp, <- H; reflexivity).
  rewrite (Qfloor_comp _ _ Hn), Qfloor_Z, Z.opp_involutive. symmetry; exact H.
Qed.

(* what a client reads for a stored feasible value, through the declared external type, is that value *)
Lemma presented_value_is_stored : forall flag fv v, In v fv ->
  exists q, pyv_num (cast (declared_ext flag fv) (YFloat v)) = Some q /\ q == v.
Proof.
  intros flag fv v Hin. unfold declared_ext.
  destruct (flag && forallb q_integral fv) eqn:E; simpl.
  - apply andb_prop in E. destruct E as [_ Hall].
    rewrite forallb_forall in Hall. specialize (Hall v Hin).
    exists (inject_Z (qtrunc v)). split; [reflexivity|]. apply qtrunc_of_integral; exact Hall.
  - exists v. split; reflexivity.
Qed.

(* and it is an int exactly when every feasible value is one (auto_cast on) *)
Lemma presented_as_int_iff : forall fv v, 
  (exists z, cast (declared_ext true fv) (YFloat v) = YInt z) <-> forallb q_integral fv = true.
Proof.
  intros fv v. unfold declared_ext; simpl. destruct (forallb q_integral fv); simpl; split; intros H; try reflexivity.
  - eexists; reflexivity.
  - destruct H as [z Hz]; discriminate.
  - discriminate.
Qed.

Lemma src_presented_value_is_stored : forall flag fv v, In v fv ->
  exists q, pyv_num (cast (interp_autocast src_autocast flag fv) (YFloat v)) = Some q /\ q == v.
Proof. intros. rewrite src_autocast_is_model. apply presented_value_is_stored; assumption. Qed.
