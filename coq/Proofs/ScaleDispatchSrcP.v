(* The dispatch of scaler_from_spec and the scale mapping of continuify, as regenerated from the source, are the documented ones. *)
From Coq Require Import QArith List Bool.
Import ListNotations.
From VZ Require Import Model.ScaleDispatch Proofs.ScaleDispatchP Gen.ScaleDispatchSrc.

Lemma src_dispatch_is_model : src_dispatch = model_dispatch.
Proof. reflexivity. Qed.

Lemma src_continuify_is_model : forall s, src_continuify_scale s = model_continuify_scale s.
Proof. intros s; destruct s; reflexivity. Qed.

Lemma src_zero_width_shifts : forall lo s, dispatch src_dispatch true true lo lo s = OShiftHalf.
Proof. rewrite src_dispatch_is_model. exact zero_width_shifts. Qed.

Lemma src_formula_follows_scale : forall lo hi s, 0 < lo -> lo < hi ->
  dispatch src_dispatch true true lo hi s = OScale (kind_of_scale s).
Proof. rewrite src_dispatch_is_model. exact formula_follows_scale. Qed.

Lemma src_continuified_formula : forall lo hi s, 0 < lo -> lo < hi ->
  dispatch src_dispatch true true lo hi (src_continuify_scale s) = OScale (kind_of_scale s).
Proof.
  intros lo hi s H1 H2. rewrite src_continuify_is_model, src_dispatch_is_model.
  apply continuified_formula; assumption.
Qed.

Lemma src_log_refuses_nonpositive : forall lo hi s, lo < hi -> lo <= 0 -> (s = SLog \/ s = SReverseLog) ->
  dispatch src_dispatch true true lo hi s = ORefuse.
Proof. rewrite src_dispatch_is_model. exact log_refuses_nonpositive. Qed.
