(* Proofs about Model/TopK.v *)
From VZ Require Import Base.Prelude Model.TopK.
From Coq Require Import Lia.

Fixpoint desc (l : list Z) : Prop :=
  match l with
  | x :: (y :: _) as r => (y <= x)%Z /\ desc r
  | _ => True
  end.

Lemma desc_tail x l : desc (x :: l) -> desc l.
Proof. destruct l; simpl; tauto. Qed.

Lemma insert_k_desc x l : desc l -> desc (insert_k x l).
Proof.
  induction l as [|y r IH]; simpl; intros H; [exact I|].
  destruct (Z.leb_spec y x) as [Hle|Hgt].
  - simpl. split; [lia|exact H].
  - pose proof (IH (desc_tail _ _ H)) as H1. destruct r as [|z r']; simpl in *.
    + split; [lia|exact I].
    + destruct (Z.leb_spec z x); simpl; (split; [lia|]); tauto.
Qed.

Lemma sort_k_desc l : desc (sort_k l).
Proof. induction l as [|x r IH]; simpl; [exact I|apply insert_k_desc; exact IH]. Qed.

Lemma firstn_desc k : forall l, desc l -> desc (firstn k l).
Proof.
  induction k as [|k IH]; intros l H; [exact I|]. destruct l as [|x r]; [exact I|].
  simpl. pose proof (IH r (desc_tail _ _ H)) as H1. destruct r as [|y r']; [destruct k; exact I|].
  destruct k; [exact I|]. simpl in *. tauto.
Qed.

Lemma sort_desc_id l : desc l -> sort_k l = l.
Proof.
  induction l as [|x r IH]; intros H; [reflexivity|]. simpl. rewrite (IH (desc_tail _ _ H)).
  destruct r as [|y r']; [reflexivity|]. simpl in *. destruct (Z.leb_spec y x); [reflexivity|lia].
Qed.

Lemma firstn_firstn_S {A} k (l : list A) : firstn k (firstn (S k) l) = firstn k l.
Proof. rewrite firstn_firstn. f_equal. lia. Qed.

(* inserting into the truncated list and truncating = inserting into the whole list and truncating *)
Lemma insert_truncate k : forall x s, firstn k (insert_k x (firstn k s)) = firstn k (insert_k x s).
Proof.
  induction k as [|k IH]; intros x s; [reflexivity|]. destruct s as [|y r]; [reflexivity|].
  cbn [firstn insert_k]. destruct (Z.leb y x).
  - cbn [firstn]. f_equal. destruct k; [reflexivity|]. cbn [firstn]. f_equal. apply firstn_firstn_S.
  - cbn [firstn]. f_equal. apply IH.
Qed.

Lemma fold_insert_truncate k a : forall s,
  firstn k (fold_right insert_k (firstn k s) a) = firstn k (fold_right insert_k s a).
Proof.
  induction a as [|x a IH]; intros s; simpl; [rewrite firstn_firstn; f_equal; lia|].
  rewrite <- insert_truncate, IH, insert_truncate. reflexivity.
Qed.

Lemma sort_k_app a b : sort_k (a ++ b) = fold_right insert_k (sort_k b) a.
Proof. unfold sort_k. apply fold_right_app. Qed.

(* keeping only the best k of the old results loses nothing *)
Lemma step_truncate k a b : firstn k (sort_k (a ++ firstn k (sort_k b))) = firstn k (sort_k (a ++ b)).
Proof.
  rewrite !sort_k_app. rewrite (sort_desc_id (firstn k (sort_k b))) by (apply firstn_desc, sort_k_desc).
  apply fold_insert_truncate.
Qed.

(* after any number of steps the kept rewards are the k best of everything scored so far *)
Theorem run_k_is_global_topk k init : forall batches,
  run_k k (firstn k (sort_k init)) batches = firstn k (sort_k (concat (rev batches) ++ init)).
Proof.
  intros batches. unfold run_k. induction batches as [|b bs IH] using rev_ind; simpl; [reflexivity|].
  rewrite fold_left_app. simpl. rewrite IH. unfold step_k. rewrite step_truncate.
  rewrite rev_app_distr. simpl. rewrite app_assoc. reflexivity.
Qed.

(* items: the reward keys of the kept items are exactly those of the key-level run *)
Lemma insert_i_keys x l : map snd (insert_i x l) = insert_k (snd x) (map snd l).
Proof.
  induction l as [|y r IH]; simpl; [reflexivity|]. destruct (Z.leb (snd y) (snd x)); simpl; [reflexivity|]. rewrite IH. reflexivity.
Qed.
Lemma sort_i_keys l : map snd (sort_i l) = sort_k (map snd l).
Proof. induction l as [|x r IH]; simpl; [reflexivity|]. rewrite insert_i_keys, IH. reflexivity. Qed.
Lemma step_i_keys k best batch : map snd (step_i k best batch) = step_k k (map snd best) (map snd batch).
Proof. unfold step_i, step_k. rewrite <- firstn_map, sort_i_keys, map_app. reflexivity. Qed.
Lemma run_i_keys k : forall batches init, map snd (run_i k init batches) = run_k k (map snd init) (map (map snd) batches).
Proof.
  induction batches as [|b bs IH]; intros init; simpl; [reflexivity|].
  unfold run_i, run_k in *. simpl. rewrite IH, step_i_keys. reflexivity.
Qed.

(* the kept items are items that were scored (or the initial fillers): features and rewards travel together *)
Lemma insert_i_In x l y : In y (insert_i x l) <-> y = x \/ In y l.
Proof.
  induction l as [|z r IH]; simpl; [intuition|]. destruct (Z.leb (snd z) (snd x)); simpl; [intuition|]. rewrite IH. intuition.
Qed.
Lemma sort_i_In l y : In y (sort_i l) <-> In y l.
Proof. induction l as [|x r IH]; simpl; [tauto|]. rewrite insert_i_In, IH. intuition. Qed.
Lemma firstn_In {A} k (l : list A) y : In y (firstn k l) -> In y l.
Proof. revert l; induction k as [|k IH]; intros [|x r]; simpl; try tauto. intros [H|H]; auto. Qed.
Lemma step_i_In k best batch y : In y (step_i k best batch) -> In y batch \/ In y best.
Proof. unfold step_i. intros H. apply firstn_In in H. apply (proj1 (sort_i_In _ _)) in H. apply in_app_or in H. exact H. Qed.
Theorem run_i_In k : forall batches init y, In y (run_i k init batches) -> In y init \/ exists b, In b batches /\ In y b.
Proof.
  induction batches as [|b bs IH]; intros init y H; simpl in *; [left; exact H|].
  unfold run_i in *. simpl in H. destruct (IH _ _ H) as [H1|[b' [Hb1 Hb2]]].
  - apply step_i_In in H1. destruct H1 as [H1|H1]; [right; exists b; split; [left; reflexivity|exact H1]|left; exact H1].
  - right. exists b'. split; [right; exact Hb1|exact Hb2].
Qed.

Lemma insert_i_length x l : length (insert_i x l) = S (length l).
Proof. induction l as [|y r IH]; simpl; [reflexivity|]. destruct (Z.leb (snd y) (snd x)); simpl; [reflexivity|]. rewrite IH. reflexivity. Qed.
Lemma sort_i_length l : length (sort_i l) = length l.
Proof. induction l as [|x r IH]; simpl; [reflexivity|]. rewrite insert_i_length, IH. reflexivity. Qed.
Lemma step_i_length k best batch : (k <= length best)%nat -> length (step_i k best batch) = k.
Proof. intros H. unfold step_i. rewrite firstn_length, sort_i_length, app_length. lia. Qed.
Theorem run_i_length k : forall batches init, length init = k -> length (run_i k init batches) = k.
Proof.
  induction batches as [|b bs IH]; intros init H; simpl; [exact H|]. unfold run_i in *. simpl.
  apply IH. apply step_i_length. lia.
Qed.

(* the first kept reward is the maximum of everything scored *)
Lemma sort_k_In l y : In y (sort_k l) <-> In y l.
Proof.
  induction l as [|x r IH]; simpl; [tauto|]. rewrite <- IH. clear IH.
  induction (sort_k r) as [|z s IH]; simpl; [intuition|]. destruct (Z.leb z x); simpl; [intuition|]. rewrite IH. intuition.
Qed.
Lemma desc_head_max l : desc l -> forall x y, In y l -> hd x l = hd x l -> (y <= hd y l)%Z.
Proof.
  induction l as [|a r IH]; intros H x y Hin _; [destruct Hin|]. simpl. destruct Hin as [->|Hin]; [lia|].
  pose proof (IH (desc_tail _ _ H) a y Hin eq_refl). destruct r as [|b r']; [destruct Hin|]. simpl in *. lia.
Qed.
Theorem best_reward_is_max k init batches y : (1 <= k)%nat ->
  In y (concat (rev batches) ++ init) ->
  (y <= hd y (run_k k (firstn k (sort_k init)) batches))%Z.
Proof.
  intros Hk Hin. rewrite run_k_is_global_topk. apply (proj2 (sort_k_In _ _)) in Hin.
  pose proof (sort_k_desc (concat (rev batches) ++ init)) as Hd.
  destruct (sort_k (concat (rev batches) ++ init)) as [|a r] eqn:E; [destruct Hin|].
  destruct k; [lia|]. simpl. pose proof (desc_head_max (a :: r) Hd y y Hin eq_refl). simpl in H. exact H.
Qed.

(* padded columns: masking zeroes them, and whatever is kept was masked (or is an all-zero filler) *)
Lemma mask_row_padded n row : padded_zero n (mask_row n row).
Proof.
  unfold padded_zero, mask_row. intros j Hj.
  destruct (Nat.lt_ge_cases j (length (firstn n row))) as [Hlt|Hge].
  - rewrite firstn_length in Hlt. lia.
  - rewrite app_nth2 by exact Hge. destruct (Nat.lt_ge_cases (j - length (firstn n row)) (length row - n)) as [H1|H1].
    + apply nth_repeat.
    + apply nth_overflow. rewrite repeat_length. exact H1.
Qed.
Lemma zero_row_padded n w : padded_zero n (repeat 0%Z w).
Proof.
  unfold padded_zero. intros j _. destruct (Nat.lt_ge_cases j w); [apply nth_repeat|apply nth_overflow; rewrite repeat_length; assumption].
Qed.
Theorem optimise_padding_never_leaks k width n_real lowest score raw y :
  In y (optimise k width n_real lowest score raw) -> padded_zero n_real (fst y).
Proof.
  unfold optimise. intros H. apply run_i_In in H. destruct H as [H|[b [Hb Hy]]].
  - unfold init_best in H. apply repeat_spec in H. subst y. apply zero_row_padded.
  - apply in_map_iff in Hb. destruct Hb as [rb [<- _]]. apply in_map_iff in Hy. destruct Hy as [row [<- _]].
    apply mask_row_padded.
Qed.
(* ... and the reported reward is the score of the returned (masked) features *)
Theorem optimise_reward_is_score k width n_real lowest score raw y :
  In y (optimise k width n_real lowest score raw) -> snd y = score (fst y) \/ y = (repeat 0%Z width, lowest).
Proof.
  unfold optimise. intros H. apply run_i_In in H. destruct H as [H|[b [Hb Hy]]].
  - right. unfold init_best in H. apply repeat_spec in H. exact H.
  - left. apply in_map_iff in Hb. destruct Hb as [rb [<- _]]. apply in_map_iff in Hy. destruct Hy as [row [<- _]]. reflexivity.
Qed.
Theorem optimise_count k width n_real lowest score raw : length (optimise k width n_real lowest score raw) = k.
Proof. unfold optimise. apply run_i_length. unfold init_best. apply repeat_length. Qed.
