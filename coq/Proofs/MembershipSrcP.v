(* The membership test as regenerated from the source means pc_contains (the function the C16 theorems are about). *)
From Coq Require Import QArith Qround Lia.
From VZ Require Import Base.Prelude Model.Space Model.MembershipIR Gen.MembershipSrc.

Lemma qtrunc_integral q : Qeq_bool q (inject_Z (Qfloor q)) = true -> inject_Z (qtrunc q) == q.
Proof.
  intros H. apply Qeq_bool_iff in H. unfold qtrunc.
  destruct (Qle_bool 0 q) eqn:E.
  - symmetry; exact H.
  - assert (Hn : - q == inject_Z (- Qfloor q)).
    { rewrite inject_Z_opp. rewrite <- H. reflexivity. }
    rewrite (Qfloor_comp _ _ Hn), Qfloor_Z.
    rewrite Z.opp_involutive. symmetry; exact H.
Qed.

Lemma xq_leb_comp_r a p q : p == q -> xq_leb a (XF p) = xq_leb a (XF q).
Proof.
  intros H. destruct a; simpl; try reflexivity.
  destruct (Qle_bool q0 p) eqn:E1, (Qle_bool q0 q) eqn:E2; try reflexivity.
  - apply Qle_bool_iff in E1. rewrite H in E1. apply Qle_bool_iff in E1. congruence.
  - apply Qle_bool_iff in E2. rewrite <- H in E2. apply Qle_bool_iff in E2. congruence.
Qed.

Lemma xq_leb_comp_l b p q : p == q -> xq_leb (XF p) b = xq_leb (XF q) b.
Proof.
  intros H. destruct b; simpl; try reflexivity.
  destruct (Qle_bool p q0) eqn:E1, (Qle_bool q q0) eqn:E2; try reflexivity.
  - apply Qle_bool_iff in E1. rewrite H in E1. apply Qle_bool_iff in E1. congruence.
  - apply Qle_bool_iff in E2. rewrite <- H in E2. apply Qle_bool_iff in E2. congruence.
Qed.

Theorem src_member_is_contains : forall p v, interp_member src_member p v = Some (pc_contains p v).
Proof.
  intros p v. unfold interp_member, src_member, pc_contains; simpl.
  destruct (pc_type p) eqn:Ety; simpl.
  - (* DOUBLE *)
    destruct (num_of v) as [x|] eqn:En; simpl; [|reflexivity].
    destruct x; simpl; try reflexivity.
  - (* INTEGER *)
    destruct (num_of v) as [x|] eqn:En; simpl; [|reflexivity].
    destruct x as [q| | |]; simpl; try reflexivity.
    destruct (Qeq_bool q (inject_Z (Qfloor q))) eqn:Ei; simpl; [|reflexivity].
    pose proof (qtrunc_integral q Ei) as Ht.
    change (Qle_bool (pc_lo p) (inject_Z (qtrunc q))) with (xq_leb (XF (pc_lo p)) (XF (inject_Z (qtrunc q)))).
    change (Qle_bool (inject_Z (qtrunc q)) (pc_hi p)) with (xq_leb (XF (inject_Z (qtrunc q))) (XF (pc_hi p))).
    rewrite (xq_leb_comp_r _ _ _ Ht), (xq_leb_comp_l _ _ _ Ht). reflexivity.
  - (* DISCRETE *)
    destruct (num_of v) as [x|] eqn:En; simpl; [|reflexivity].
    destruct x; simpl; try reflexivity.
  - (* CATEGORICAL *)
    destruct (as_str v) as [s|] eqn:Es; simpl; reflexivity.
Qed.
