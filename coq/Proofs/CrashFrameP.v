(* C05 / C06: a crash at ANY point inside ANY RPC leaves a durable state in which every stored trial has evolved by a legal
   transition and the structural invariants hold.  (With the SQL backend every datastore primitive is crash-atomic -
   Proofs/SqlShapeP.v -, so the durable state after a crash is the state after some prefix of the primitives the RPC
   issues: run_upto m.) *)
From VZ Require Import Base.Prelude Base.XFloat Model.Metadata Model.Service Model.ServiceEq Model.Crash
                       Proofs.ServiceP Proofs.WedgeP Proofs.FrameP Proofs.CrashP.
From Coq Require Import Lia.

(* ---------- a primitive that is not a successful mutation leaves the state as it is *)
Lemma exec_quiet c s : mut_call c = false -> fst (exec c s) = s.
Proof. intros H. destruct c; simpl in H; try discriminate; simpl; exec_cases; reflexivity. Qed.
Lemma exec_err_same c s s' e : exec c s = (s', Err e) -> s' = s.
Proof. destruct c; simpl; exec_cases; intros [= <- ?]; try reflexivity; discriminate. Qed.

Definition counted (ce : call * option errclass) : bool :=
  mut_call (fst ce) && match snd ce with None => true | Some _ => false end.
Lemma count_mut_rev l : count_mut (rev l) = count_mut l.
Proof.
  unfold count_mut. fold counted. induction l as [|x r IH]; [reflexivity|]. cbn [rev]. rewrite filter_app, app_length, IH.
  cbn [filter]. destruct (counted x); cbn [length]; lia.
Qed.
Lemma count_mut_cons x l : count_mut (x :: l) = ((if counted x then 1 else 0) + count_mut l)%nat.
Proof. unfold count_mut. fold counted. cbn [filter]. destruct (counted x); reflexivity. Qed.

Lemma run_trace_mono p : forall s po tr, count_mut tr <= count_mut (snd (run p s po tr)).
Proof.
  induction p as [r|e|c k IH|l p IH|l p IH|q k IH]; intros s po tr; cbn [run snd].
  - rewrite count_mut_rev. lia.
  - rewrite count_mut_rev. lia.
  - destruct (exec c s) as [s1 r]. specialize (IH r s1 po ((c, match r with Ok _ => None | Err e => Some e end) :: tr)).
    rewrite count_mut_cons in IH. lia.
  - apply IH.
  - apply IH.
  - apply IH.
Qed.

(* no further successful mutation: every prefix state, and the final state, is the current state *)
Lemma no_mut_same p : forall m s po tr, count_mut (snd (run p s po tr)) <= count_mut tr ->
  run_upto m p s po = s /\ fst (fst (run p s po tr)) = s.
Proof.
  induction p as [r|e|c k IH|l p IH|l p IH|q k IH]; intros m s po tr H; cbn [run run_upto fst snd] in *; auto.
  destruct (exec c s) as [s1 r] eqn:E.
  set (x := (c, match r with Ok _ => None | Err e => Some e end)) in *.
  pose proof (run_trace_mono (k r) s1 po (x :: tr)) as Hm. rewrite count_mut_cons in Hm.
  assert (Hc : counted x = false) by (destruct (counted x); [lia|reflexivity]).
  assert (Hs : s1 = s).
  { unfold counted, x in Hc. cbn [fst snd] in Hc. destruct (mut_call c) eqn:Em.
    - destruct r as [v|e0]; [discriminate Hc|]. eapply exec_err_same; eauto.
    - pose proof (exec_quiet c s Em) as Hq. rewrite E in Hq. exact Hq. }
  subst s1. assert (H' : count_mut (snd (run (k r) s po (x :: tr))) <= count_mut (x :: tr)) by (rewrite count_mut_cons, Hc; lia).
  destruct (IH r m s po (x :: tr) H') as [I1 I2]. split; [|exact I2].
  destruct m as [|m']; [reflexivity|]. exact (proj1 (IH r m' s po (x :: tr) H')).
Qed.

(* at most one successful mutation: every prefix state is the initial or the final state *)
Lemma one_mut_two_states p : forall m s po tr, count_mut (snd (run p s po tr)) <= count_mut tr + 1 ->
  run_upto m p s po = s \/ run_upto m p s po = fst (fst (run p s po tr)).
Proof.
  induction p as [r|e|c k IH|l p IH|l p IH|q k IH]; intros m s po tr H; cbn [run run_upto fst snd] in *; auto.
  destruct m as [|m']; [left; reflexivity|].
  destruct (exec c s) as [s1 r] eqn:E.
  set (x := (c, match r with Ok _ => None | Err e => Some e end)) in *.
  destruct (counted x) eqn:Hc.
  - (* the one mutation: nothing changes afterwards *)
    assert (H' : count_mut (snd (run (k r) s1 po (x :: tr))) <= count_mut (x :: tr)) by (rewrite count_mut_cons, Hc; lia).
    destruct (no_mut_same (k r) m' s1 po (x :: tr) H') as [I1 I2]. right. rewrite I1, I2. reflexivity.
  - assert (Hs : s1 = s).
    { unfold counted, x in Hc. cbn [fst snd] in Hc. destruct (mut_call c) eqn:Em.
      - destruct r as [v|e0]; [discriminate Hc|]. eapply exec_err_same; eauto.
      - pose proof (exec_quiet c s Em) as Hq. rewrite E in Hq. exact Hq. }
    subst s1. apply IH. rewrite count_mut_cons, Hc. lia.
Qed.

(* ---------- prefixes of programs made of tracking calls *)
Lemma tsafe_upto p : tsafe p -> forall m s po, tracks s (run_upto m p s po).
Proof.
  induction 1 as [r|e|c k Hc Hk IH|l p Hp IH|l p Hp IH|q k Hk IH]; intros m s po; cbn [run_upto]; try apply tracks_refl; try apply IH.
  destruct m as [|m']; [apply tracks_refl|]. destruct (exec c s) as [s1 r] eqn:E.
  eapply tracks_trans; [eapply exec_tracks; eauto|apply IH].
Qed.

(* ---------- SuggestTrials, prefix by prefix *)
Lemma assign_loop_upto k c po : forall pool need out cont m s,
  pool_ok k pool s -> (forall out', tsafe (cont out')) -> tracks s (run_upto m (assign_loop k c pool need out cont) s po).
Proof.
  induction pool as [|t rest IH]; intros need out cont m s Hp Hc.
  - destruct need; cbn [assign_loop]; apply tsafe_upto; apply Hc.
  - destruct need as [|need']; cbn [assign_loop]; [apply tsafe_upto; apply Hc|].
    destruct Hp as [Hnd [n [Hg Hall]]]. destruct (Hall t (or_introl eq_refl)) as [Hget Hst].
    fold (activate c t). cbn [run_upto]. destruct m as [|m']; [apply tracks_refl|]. cbn [exec]. rewrite Hg. cbn [t_id activate]. rewrite Hget.
    cbn [expect_unit].
    set (n1 := mkN (n_study n) (set_trial (activate c t) (n_trials n)) (n_ops n) (n_es n)).
    eapply tracks_trans.
    + eapply (update_trial_tracks s k n t (activate c t) Hg); [exact Hget|apply activate_ok; exact Hst].
    + apply (IH need' _ cont m' (upd s k n1)); [|exact Hc].
      inversion Hnd; subst. split; [assumption|]. exists n1. split; [eapply get_node_upd_same; eauto|].
      intros t0 Hin. destruct (Hall t0 (or_intror Hin)) as [G0 S0]. split; [|exact S0]. cbn [n_trials n1].
      rewrite get_set_trial_other; [exact G0|]. cbn [t_id activate]. intros E. apply H1. rewrite <- E. apply in_map. exact Hin.
Qed.

Lemma suggest_tail_upto k c count o m s po : wf_t s -> tracks s (run_upto m (suggest_tail k c count o) s po).
Proof.
  intros Wt. unfold suggest_tail. cbn [run_upto]. destruct m as [|m1]; [apply tracks_refl|].
  cbn [exec]. destruct (get_node k (nodes s)) as [n|] eqn:Hg; [|cbn [run_upto]; apply tracks_refl].
  cbv zeta.
  destruct (Nat.leb count (length (filter (fun t => tstate_eqb (t_state t) ACTIVE && N.eqb (t_client t) c) (n_trials n)))).
  - apply tsafe_upto. apply tsafe_finish_op.
  - cbn [run_upto]. destruct m1 as [|m2]; [apply tracks_refl|]. cbn [exec]. rewrite Hg.
    apply assign_loop_upto; [apply filter_requested_pool; assumption|].
    intros out'. repeat first [apply tsafe_finish_op | apply tsafe_create_loop; intros ? ? | apply tsafe_remain_loop | ts_step].
Qed.

Lemma suggest_upto k c count m s po : wf_t s -> tracks s (run_upto m (h_suggest k c count) s po).
Proof.
  intros Wt. rewrite h_suggest_shape. unfold guard_study. cbn [run_upto]. destruct m as [|m1]; [apply tracks_refl|]. cbn [exec].
  destruct (get_node k (nodes s)) as [n|] eqn:Hg; [|cbn [run_upto]; apply tracks_refl].
  destruct (immutable (n_study n)); [cbn [run_upto]; apply tracks_refl|].
  cbn [run_upto]. destruct m1 as [|m2]; [apply tracks_refl|]. cbn [exec]. rewrite Hg.
  cbn [run_upto]. destruct m2 as [|m3]; [apply tracks_refl|]. cbn [exec]. rewrite Hg.
  assert (Hcreate : forall o1 m', tracks s (run_upto m' (Call (CCreateSop k o1) (fun r3 => expect_unit r3 (suggest_tail k c count o1))) s po)).
  { intros o1 m'. cbn [run_upto]. destruct m' as [|m'']; [apply tracks_refl|]. cbn [exec]. rewrite Hg.
    destruct (existsb (op_is (o_client o1) (o_num o1)) (n_ops n)); cbn [expect_unit run_upto]; [apply tracks_refl|].
    eapply tracks_trans; [eapply (same_trials_tracks s k n (mkN (n_study n) (n_trials n) (n_ops n ++ [o1]) (n_es n))); [exact Hg|reflexivity]|].
    apply suggest_tail_upto.
    intros k0 n0 Hn0. destruct (skey_eqb k0 k) eqn:E.
    - apply skey_eqb_eq in E. subst k0. rewrite (get_node_upd_same s k n _ Hg) in Hn0. injection Hn0 as <-. cbn [n_trials]. exact (Wt k n Hg).
    - rewrite get_node_upd_other in Hn0 by (intros ->; rewrite skey_eqb_refl in E; discriminate). exact (Wt k0 n0 Hn0). }
  destruct (filter (fun o0 => N.eqb (o_client o0) c) (n_ops n)) as [|o0 rest] eqn:Em.
  - cbn [run_upto]. destruct m3 as [|m4]; [apply tracks_refl|]. cbn [exec]. rewrite Hg, Em. apply Hcreate.
  - cbn zeta. destruct (filter (fun o1 => negb (o_done o1)) (o0 :: rest)) as [|u us].
    + cbn [run_upto]. destruct m3 as [|m4]; [apply tracks_refl|]. cbn [exec]. rewrite Hg, Em. apply Hcreate.
    + cbn [run_upto]. apply tracks_refl.
Qed.

(* ---------- the theorem *)
Lemma frame_refl' s : frame s s.
Proof. intros k n n' id t t' Hn Hn' Ht Ht'. assert (n' = n) by congruence. subst. assert (t' = t) by congruence. subst. apply trans_ok_refl. Qed.

Theorem crash_frame s r po m : wf s -> wf_t s -> frame s (run_upto m (handler r) s po).
Proof.
  intros W Wt.
  assert (Htr : forall s1, tracks s s1 -> frame s s1) by (intros s1 T k n n' id t t' Hn Hn' Ht Ht'; eapply tracks_frame; eauto).
  destruct (single_resource r) eqn:Esr.
  - (* one mutation at most: the durable state is the state before or the state after the call *)
    pose proof (single_mutation s r po Esr) as Hone.
    destruct (one_mut_two_states (handler r) m s po [] Hone) as [-> | ->]; [apply frame_refl'|].
    pose proof (frame_step s (r, po) W Wt) as F. unfold step_state, step in F. cbn [fst snd] in F.
    destruct (run (handler r) s po []) as [[s1 o1] tr1]. exact F.
  - destruct r; simpl in Esr; try discriminate;
      try (apply Htr; apply tsafe_upto; apply tsafe_handler; reflexivity).
    apply Htr. cbn [handler]. apply suggest_upto. exact Wt.
Qed.

Lemma upto_wf p : forall m s po, wf s -> wf_t s -> wf (run_upto m p s po) /\ wf_t (run_upto m p s po).
Proof.
  induction p as [r|e|c k IH|l p IH|l p IH|q k IH]; intros m s po W Wt; cbn [run_upto]; auto.
  destruct m as [|m']; [auto|]. destruct (exec c s) as [s1 r] eqn:E. apply IH; [eapply exec_wf; eauto|eapply exec_wf_t; eauto].
Qed.

(* along every history: crash anywhere inside the next RPC *)
Theorem crash_frame_history ops r po m : let s := run_all ops init_state in
  frame s (run_upto m (handler r) s po) /\ wf (run_upto m (handler r) s po) /\ wf_t (run_upto m (handler r) s po).
Proof.
  intros s.
  assert (H : forall s0, wf s0 -> wf_t s0 -> wf (run_all ops s0) /\ wf_t (run_all ops s0)).
  { induction ops as [|r0 rest IH]; intros s0 W Wt; [simpl; auto|]. unfold run_all. cbn [fold_left].
    assert (Hs : wf (step_state s0 r0) /\ wf_t (step_state s0 r0)).
    { destruct r0 as [rp po0]. unfold step_state, step. cbn [fst snd].
      destruct (run (handler rp) s0 po0 []) as [[s1 o1] tr1] eqn:Hr. cbn [fst]. eapply run_wf_all; eauto. }
    destruct Hs. apply IH; assumption. }
  destruct (H init_state (proj1 wf_init)) as [W Wt]; [intros k n Hn; simpl in Hn; discriminate|].
  split; [apply crash_frame; assumption|apply upto_wf; assumption].
Qed.
