(* ListOptimalTrials never reports a trial that did not succeed, lacks a configured metric, or has a NaN objective. *)
From VZ Require Import Base.Prelude Base.XFloat Model.Service.

Lemma objective_vector_some : forall metrics t v, objective_vector metrics t = Some v ->
  tstate_eqb (t_state t) SUCCEEDED = true /\ existsb is_nan v = false /\ length v = length metrics.
Proof.
  intros metrics t v H. unfold objective_vector in H.
  destruct (tstate_eqb (t_state t) SUCCEEDED); [|discriminate].
  split; [reflexivity|].
  match type of H with match ?f with _ => _ end = _ => destruct f as [l|] eqn:Ef end; [|discriminate].
  destruct (existsb is_nan l) eqn:En; [discriminate|]. inversion H; subst v. split; [exact En|].
  clear H En. revert l Ef. induction metrics as [|mg ms IH]; intros l Ef; simpl in Ef.
  - inversion Ef; reflexivity.
  - match type of Ef with context [fold_right ?g ?b ms] => destruct (fold_right g b ms) as [l0|] eqn:Ea end; [|discriminate].
    destruct (metric_value (t_final t) (fst mg)); [|discriminate].
    inversion Ef; subst l. simpl. f_equal. apply IH. reflexivity.
Qed.

Theorem optimal_trials_are_considered : forall metrics trials t, In t (optimal_trials metrics trials) ->
  In t trials /\ exists v, objective_vector metrics t = Some v.
Proof.
  intros metrics trials t H. unfold optimal_trials in H.
  apply in_map_iff in H. destruct H as [[t' v] [Hf Hin]]. simpl in Hf. subst t'.
  apply filter_In in Hin. destruct Hin as [Hin _].
  apply in_flat_map in Hin. destruct Hin as [t0 [Ht0 Hc]].
  destruct (objective_vector metrics t0) as [v0|] eqn:E; simpl in Hc; [|contradiction].
  destruct Hc as [Hc|[]]. inversion Hc; subst t0 v0. split; [exact Ht0|]. exists v. exact E.
Qed.

(* never reported: not SUCCEEDED (infeasible, unfinished), a configured metric missing, an objective that is not a number *)
Theorem optimal_trials_never_nan : forall metrics trials t, In t (optimal_trials metrics trials) ->
  tstate_eqb (t_state t) SUCCEEDED = true /\
  exists v, objective_vector metrics t = Some v /\ existsb is_nan v = false /\ length v = length metrics.
Proof.
  intros metrics trials t H. destruct (optimal_trials_are_considered _ _ _ H) as [_ [v Hv]].
  destruct (objective_vector_some _ _ _ Hv) as [Hs [Hn Hl]].
  split; [exact Hs|]. exists v. repeat split; assumption.
Qed.
