(* C04: calls on different studies never interfere.  Two RPCs that address different studies (and are not study
   creation / deletion / listing) end with the same replies and the same stored data under EVERY schedule - in particular
   under the two serial ones.  Proof: every datastore primitive reads and writes only the node of its study; each thread
   of the pair is therefore simulated step by step by the same thread running alone. *)
From VZ Require Import Base.Prelude Base.XFloat Model.Metadata Model.Service Model.ServiceEq Model.Conc
                       Proofs.ServiceP Proofs.WedgeP Proofs.FrameP.
From Coq Require Import Lia.

Definition call_local (c : call) : option skey :=
  match c with
  | CLoadStudy k | CUpdateStudy k _ | CCreateTrial k _ | CGetTrial k _ | CUpdateTrial k _ | CListTrials k | CDeleteTrial k _
  | CMaxTrialId k | CCreateSop k _ | CGetSop k _ _ | CUpdateSop k _ | CListSops k _ | CMaxSopNum k _
  | CCreateEs k _ | CGetEs k _ | CUpdateEs k _ | CUpdateMd k _ _ => Some k
  | CCreateStudy _ _ | CDeleteStudy _ | CListStudies _ => None
  end.
Definition lock_key (l : lockid) : option skey := match l with LStudy k | LOp k => Some k | LOwner _ => None end.

Definition same_at (k : skey) (s s2 : state) : Prop := get_node k (nodes s) = get_node k (nodes s2).

Lemma same_at_upd k s s2 n n' : get_node k (nodes s) = Some n -> get_node k (nodes s2) = Some n -> same_at k (upd s k n') (upd s2 k n').
Proof. intros H1 H2. unfold same_at. rewrite (get_node_upd_same s k n n' H1), (get_node_upd_same s2 k n n' H2). reflexivity. Qed.
Lemma same_at_upd_other k k' s n' : k' <> k -> same_at k' (upd s k n') s.
Proof. intros H. unfold same_at. apply get_node_upd_other. exact H. Qed.

(* every local primitive is a function of the node of its study, and touches nothing else *)
Lemma exec_local c k s s2 : call_local c = Some k -> same_at k s s2 ->
  snd (exec c s) = snd (exec c s2) /\ same_at k (fst (exec c s)) (fst (exec c s2)) /\
  (forall k', k' <> k -> same_at k' (fst (exec c s)) s) /\ (forall k', k' <> k -> same_at k' (fst (exec c s2)) s2) /\
  owners (fst (exec c s)) = owners s /\ owners (fst (exec c s2)) = owners s2.
Proof.
  intros Hl Hs. unfold same_at in Hs.
  destruct (get_node k (nodes s2)) as [nd|] eqn:Hn2;
    (destruct c; cbn [call_local] in Hl; try discriminate; injection Hl as ->; cbn [exec]; rewrite Hs, Hn2; cbn [fst snd];
     exec_cases; cbn [fst snd owners upd];
     repeat split;
     first [ reflexivity
           | (unfold same_at; rewrite Hs, Hn2; reflexivity)
           | (intros; reflexivity)
           | (intros ? ?; apply same_at_upd_other; assumption)
           | (apply (same_at_upd k s s2 nd); assumption) ]).
Qed.

(* ---------- programs that only address study k *)
Inductive on_key (k : skey) : prog -> Prop :=
| ok_ret r : on_key k (Ret r)
| ok_throw e : on_key k (Throw e)
| ok_call c kont : call_local c = Some k -> (forall r, on_key k (kont r)) -> on_key k (Call c kont)
| ok_acq l p : lock_key l = Some k -> on_key k p -> on_key k (Acquire l p)
| ok_rel l p : on_key k p -> on_key k (Release l p)
| ok_py q kont : (forall po, on_key k (kont po)) -> on_key k (Pythia q kont).

Ltac ok_step :=
  cbv zeta;
  match goal with
  | |- on_key _ (Ret _) => apply ok_ret
  | |- on_key _ (Throw _) => apply ok_throw
  | |- on_key _ (Call _ _) => apply ok_call; [reflexivity|intros ?]
  | |- on_key _ (Acquire _ _) => apply ok_acq; [reflexivity|]
  | |- on_key _ (Release _ _) => apply ok_rel
  | |- on_key _ (Pythia _ _) => apply ok_py; intros ?
  | |- on_key _ (expect_unit ?r _) => destruct r; cbn [expect_unit]
  | |- on_key _ (match ?x with _ => _ end) => destruct x
  | |- on_key _ (if ?b then _ else _) => destruct b
  end.

Lemma ok_finish_op k o err out : on_key k (finish_op k o err out).
Proof. unfold finish_op. repeat ok_step. Qed.
Lemma ok_assign_loop k c : forall pool need out cont, (forall o, on_key k (cont o)) -> on_key k (assign_loop k c pool need out cont).
Proof.
  induction pool as [|t rest IH]; intros need out cont Hc; destruct need; cbn [assign_loop]; try apply Hc.
  repeat first [apply IH; exact Hc | ok_step].
Qed.
Lemma ok_create_loop k c : forall sugs need out cont, (forall l o, on_key k (cont l o)) -> on_key k (create_loop k c sugs need out cont).
Proof.
  induction sugs as [|p rest IH]; intros need out cont Hc; destruct need; cbn [create_loop]; try apply Hc.
  repeat first [apply IH; exact Hc | ok_step].
Qed.
Lemma ok_remain_loop k : forall rem cont, on_key k cont -> on_key k (remain_loop k rem cont).
Proof.
  induction rem as [|p rest IH]; intros cont Hc; cbn [remain_loop]; [exact Hc|].
  repeat first [apply IH; exact Hc | ok_step].
Qed.
Lemma ok_decisions_loop k : forall ds cont, on_key k cont -> on_key k (decisions_loop k ds cont).
Proof.
  induction ds as [|[id b] rest IH]; intros cont Hc; cbn [decisions_loop]; [exact Hc|].
  repeat first [apply IH; exact Hc | ok_step].
Qed.
Lemma ok_es_compute k id : on_key k (es_compute k id).
Proof. unfold es_compute. repeat first [apply ok_decisions_loop | ok_step]. Qed.

(* the RPCs that address one study and are not creation / deletion / listing of studies *)
Definition rpc_local (r : rpc) : option skey :=
  match r with
  | CreateStudy _ _ _ _ | ListStudies _ | DeleteStudy _ => None
  | GetStudy k | SetStudyState k _ | CreateTrial k _ | SuggestTrials k _ _ | GetTrial k _ | ListTrials k
  | AddTrialMeasurement k _ _ | CompleteTrial k _ _ _ | StopTrial k _ | DeleteTrial k _ | CheckEarlyStop _ k _
  | UpdateMetadata k _ _ | ListOptimalTrials k | GetOperation k _ _ => Some k
  end.

Lemma ok_handler r k : rpc_local r = Some k -> on_key k (handler r).
Proof.
  intros H. destruct r; cbn [rpc_local] in H; try discriminate; injection H as ->; cbn [handler];
    unfold h_get_study, h_set_study_state, h_create_trial, h_get_trial, h_suggest,
      h_list_trials, h_add_measurement, h_complete_trial, h_stop_trial, h_delete_trial, h_check_early_stop, h_update_metadata,
      h_list_optimal, h_get_operation, guard_study, with_trial;
    repeat first [apply ok_finish_op | apply ok_es_compute | apply ok_assign_loop; intros ? | apply ok_create_loop; intros ? ?
                 | apply ok_remain_loop | ok_step].
Qed.

(* ---------- threads *)
Definition thr_on (k : skey) (t : thread) : Prop :=
  (th_result t = None -> on_key k (th_prog t)) /\ Forall (fun l => lock_key l = Some k) (th_held t).

Lemma park_on k p : forall oracle held, on_key k p -> Forall (fun l => lock_key l = Some k) held -> thr_on k (park p oracle held).
Proof.
  induction p as [r|e|c kont IH|l p IH|l p IH|q kont IH]; intros oracle held Hp Hh; cbn [park].
  - split; [intros H; discriminate H|constructor].
  - split; [intros H; discriminate H|constructor].
  - split; [intros _; exact Hp|exact Hh].
  - split; [intros _; exact Hp|exact Hh].
  - inversion Hp; subst. apply IH; [assumption|]. apply Forall_forall. intros x Hx. apply filter_In in Hx.
    exact (proj1 (Forall_forall _ _) Hh x (proj1 Hx)).
  - inversion Hp; subst. apply IH; auto.
Qed.

Lemma lock_eqb_key a b : lock_eqb a b = true -> lock_key a = lock_key b.
Proof.
  destruct a, b; simpl; intros H; try discriminate; try reflexivity; apply skey_eqb_eq in H; subst; reflexivity.
Qed.

Lemma not_held_other k k2 l held : lock_key l = Some k -> k2 <> k -> Forall (fun x => lock_key x = Some k2) held ->
  existsb (lock_eqb l) held = false.
Proof.
  intros Hl Hne Hh. apply not_true_is_false. intros H. apply existsb_exists in H. destruct H as [x [Hx He]].
  apply lock_eqb_key in He. rewrite Hl in He. rewrite (proj1 (Forall_forall _ _) Hh x Hx) in He. congruence.
Qed.

(* ---------- one step of a pair against the same step of the thread alone *)
Definition solo_step (c : cfg) : cfg := match cstep c 0 with Some c' => c' | None => c end.

Record sim (k1 k2 : skey) (s0 : state) (c c1 c2 : cfg) : Prop := mkSim {
  sim_t : exists t1 t2, c_threads c = [t1; t2] /\ c_threads c1 = [t1] /\ c_threads c2 = [t2] /\ thr_on k1 t1 /\ thr_on k2 t2;
  sim_1 : same_at k1 (c_state c) (c_state c1);
  sim_2 : same_at k2 (c_state c) (c_state c2);
  sim_o : forall k, k <> k1 -> k <> k2 -> same_at k (c_state c) s0;
  sim_w : owners (c_state c) = owners s0
}.

Lemma same_at_trans k a b c : same_at k a b -> same_at k b c -> same_at k a c.
Proof. unfold same_at. congruence. Qed.
Lemma same_at_sym k a b : same_at k a b -> same_at k b a.
Proof. unfold same_at. congruence. Qed.

Lemma sim_step0 k1 k2 s0 c c1 c2 c' : k1 <> k2 -> sim k1 k2 s0 c c1 c2 -> cstep c 0 = Some c' ->
  exists c1', cstep c1 0 = Some c1' /\ sim k1 k2 s0 c' c1' c2.
Proof.
  intros Hne [Ht S1 S2 So Sw] Hs. destruct Ht as [t1 [t2 [Hc [Hc1 [Hc2 [O1 O2]]]]]].
  unfold cstep in *. rewrite Hc in Hs. rewrite Hc1. cbn [nth_error] in *.
  assert (Hen : enabled [t1; t2] t1 = enabled [t1] t1).
  { unfold enabled. destruct (th_result t1) eqn:Er; [reflexivity|]. destruct (th_prog t1) eqn:Ep; try reflexivity.
    unfold held_by_any. cbn [existsb]. destruct O1 as [Op _]. specialize (Op Er). rewrite Ep in Op. inversion Op; subst.
    rewrite (not_held_other k1 k2 l (th_held t2)); [rewrite !orb_false_r; reflexivity|assumption|congruence|exact (proj2 O2)]. }
  rewrite Hen in Hs. destruct (enabled [t1] t1) eqn:Een; [|discriminate].
  assert (Er : th_result t1 = None) by (unfold enabled in Een; destruct (th_result t1); [discriminate|reflexivity]).
  destruct O1 as [Op Oh]. specialize (Op Er).
  destruct (th_prog t1) as [| |cl kont|l p| |] eqn:Ep; try discriminate.
  - (* a datastore call *)
    inversion Op as [| |? ? Hl Hk| | |]; subst.
    destruct (exec_local cl k1 (c_state c) (c_state c1) Hl S1) as [Hr [Hs1 [Ho [Ho1 [Hw _]]]]].
    destruct (exec cl (c_state c)) as [s' r] eqn:E. destruct (exec cl (c_state c1)) as [s1' r1] eqn:E1. cbn [fst snd] in *. subst r1.
    injection Hs as <-. eexists. split; [reflexivity|]. constructor; cbn [c_state c_threads set_nth].
    + exists (park (kont r) (th_oracle t1) (th_held t1)), t2. split; [reflexivity|]. split; [reflexivity|]. split; [exact Hc2|].
      split; [apply (park_on k1 (kont r) (th_oracle t1) (th_held t1) (Hk r) Oh)|exact O2].
    + exact Hs1.
    + eapply same_at_trans; [apply Ho; congruence|exact S2].
    + intros k Hk1 Hk2. eapply same_at_trans; [apply Ho; exact Hk1|apply So; assumption].
    + rewrite Hw. exact Sw.
  - (* a lock *)
    inversion Op as [| | |? ? Hl Hp| |]; subst. injection Hs as <-. eexists. split; [reflexivity|].
    constructor; cbn [c_state c_threads set_nth]; try assumption.
    exists (park p (th_oracle t1) (l :: th_held t1)), t2. split; [reflexivity|]. split; [reflexivity|]. split; [exact Hc2|].
    split; [apply (park_on k1 p (th_oracle t1) (l :: th_held t1) Hp); constructor; assumption|exact O2].
Qed.

Lemma sim_step1 k1 k2 s0 c c1 c2 c' : k1 <> k2 -> sim k1 k2 s0 c c1 c2 -> cstep c 1 = Some c' ->
  exists c2', cstep c2 0 = Some c2' /\ sim k1 k2 s0 c' c1 c2'.
Proof.
  intros Hne [Ht S1 S2 So Sw] Hs. destruct Ht as [t1 [t2 [Hc [Hc1 [Hc2 [O1 O2]]]]]].
  unfold cstep in *. rewrite Hc in Hs. rewrite Hc2. cbn [nth_error] in *.
  assert (Hen : enabled [t1; t2] t2 = enabled [t2] t2).
  { unfold enabled. destruct (th_result t2) eqn:Er; [reflexivity|]. destruct (th_prog t2) eqn:Ep; try reflexivity.
    unfold held_by_any. cbn [existsb]. destruct O2 as [Op _]. specialize (Op Er). rewrite Ep in Op. inversion Op; subst.
    rewrite (not_held_other k2 k1 l (th_held t1)); [reflexivity|assumption|exact Hne|exact (proj2 O1)]. }
  rewrite Hen in Hs. destruct (enabled [t2] t2) eqn:Een; [|discriminate].
  assert (Er : th_result t2 = None) by (unfold enabled in Een; destruct (th_result t2); [discriminate|reflexivity]).
  destruct O2 as [Op Oh]. specialize (Op Er).
  destruct (th_prog t2) as [| |cl kont|l p| |] eqn:Ep; try discriminate.
  - inversion Op as [| |? ? Hl Hk| | |]; subst.
    destruct (exec_local cl k2 (c_state c) (c_state c2) Hl S2) as [Hr [Hs1 [Ho [Ho1 [Hw _]]]]].
    destruct (exec cl (c_state c)) as [s' r] eqn:E. destruct (exec cl (c_state c2)) as [s2' r2] eqn:E2. cbn [fst snd] in *. subst r2.
    injection Hs as <-. eexists. split; [reflexivity|]. constructor; cbn [c_state c_threads set_nth].
    + exists t1, (park (kont r) (th_oracle t2) (th_held t2)). split; [reflexivity|]. split; [exact Hc1|]. split; [reflexivity|].
      split; [exact O1|apply (park_on k2 (kont r) (th_oracle t2) (th_held t2) (Hk r) Oh)].
    + eapply same_at_trans; [apply Ho; exact Hne|exact S1].
    + exact Hs1.
    + intros k Hk1 Hk2. eapply same_at_trans; [apply Ho; exact Hk2|apply So; assumption].
    + rewrite Hw. exact Sw.
  - inversion Op as [| | |? ? Hl Hp| |]; subst. injection Hs as <-. eexists. split; [reflexivity|].
    constructor; cbn [c_state c_threads set_nth]; try assumption.
    exists t1, (park p (th_oracle t2) (l :: th_held t2)). split; [reflexivity|]. split; [exact Hc1|]. split; [reflexivity|].
    split; [exact O1|apply (park_on k2 p (th_oracle t2) (l :: th_held t2) Hp); constructor; assumption].
Qed.

Lemma sim_step_other k1 k2 s0 c c1 c2 tid : sim k1 k2 s0 c c1 c2 -> (2 <= tid)%nat -> cstep c tid = None.
Proof.
  intros [Ht _ _ _ _] Hge. destruct Ht as [t1 [t2 [Hc _]]]. unfold cstep. rewrite Hc.
  destruct tid as [|[|tid]]; try lia. cbn [nth_error]. destruct tid; reflexivity.
Qed.

(* ---------- running alone is deterministic *)
Fixpoint solo_iter (n : nat) (c : cfg) : cfg := match n with O => c | S n' => solo_iter n' (solo_step c) end.
Definition solo_reach (c0 c : cfg) : Prop := exists n, solo_iter n c0 = c.

Lemma solo_reach_refl c : solo_reach c c.
Proof. exists 0%nat. reflexivity. Qed.
Lemma solo_iter_snoc n : forall c, solo_iter (S n) c = solo_step (solo_iter n c).
Proof. induction n as [|n IH]; intros c; [reflexivity|]. cbn [solo_iter] in *. rewrite <- IH. reflexivity. Qed.
Lemma solo_reach_step c0 c c' : solo_reach c0 c -> cstep c 0 = Some c' -> solo_reach c0 c'.
Proof. intros [n Hn] Hs. exists (S n). rewrite solo_iter_snoc, Hn. unfold solo_step. rewrite Hs. reflexivity. Qed.

Definition stuck (c : cfg) : Prop := cstep c 0 = None.
Lemma solo_iter_stuck n : forall c, stuck c -> solo_iter n c = c.
Proof. induction n as [|n IH]; intros c H; [reflexivity|]. cbn [solo_iter]. unfold solo_step. rewrite H. apply IH. exact H. Qed.
Lemma solo_iter_add a : forall b c, solo_iter (a + b) c = solo_iter b (solo_iter a c).
Proof. induction a as [|a IH]; intros b c; [reflexivity|]. cbn [plus solo_iter]. apply IH. Qed.
Lemma solo_unique c0 c c' : solo_reach c0 c -> solo_reach c0 c' -> stuck c -> stuck c' -> c = c'.
Proof.
  intros [n Hn] [m Hm] Sc Sc'. destruct (Nat.le_ge_cases n m) as [H|H].
  - replace m with (n + (m - n))%nat in Hm by lia. rewrite solo_iter_add, Hn, (solo_iter_stuck _ c Sc) in Hm. exact Hm.
  - replace n with (m + (n - m))%nat in Hn by lia. rewrite solo_iter_add, Hm, (solo_iter_stuck _ c' Sc') in Hn. symmetry. exact Hn.
Qed.

Lemma finished_stuck c t : c_threads c = [t] -> th_result t <> None -> stuck c.
Proof.
  intros Hc Hr. unfold stuck, cstep. rewrite Hc. cbn [nth_error]. unfold enabled. destruct (th_result t); [reflexivity|congruence].
Qed.

(* ---------- any schedule of the pair keeps the simulation *)
Lemma run_sched_sim k1 k2 s0 c10 c20 : k1 <> k2 -> forall fuel sched c c1 c2,
  sim k1 k2 s0 c c1 c2 -> solo_reach c10 c1 -> solo_reach c20 c2 ->
  exists c1' c2', sim k1 k2 s0 (run_sched fuel sched c) c1' c2' /\ solo_reach c10 c1' /\ solo_reach c20 c2'.
Proof.
  intros Hne. induction fuel as [|fuel IH]; intros sched c c1 c2 HS R1 R2; cbn [run_sched]; [exists c1, c2; auto|].
  set (pick := match sched with
               | [] => first_enabled c
               | tid :: _ => match cstep c tid with Some _ => Some tid | None => first_enabled c end
               end).
  destruct pick as [tid|]; [|exists c1, c2; auto].
  destruct (cstep c tid) as [c'|] eqn:E; [|exists c1, c2; auto].
  destruct tid as [|[|tid]].
  - destruct (sim_step0 k1 k2 s0 c c1 c2 c' Hne HS E) as [c1' [E1 HS']].
    apply (IH (tl sched) c' c1' c2 HS'); [eapply solo_reach_step; eauto|exact R2].
  - destruct (sim_step1 k1 k2 s0 c c1 c2 c' Hne HS E) as [c2' [E2 HS']].
    apply (IH (tl sched) c' c1 c2' HS'); [exact R1|eapply solo_reach_step; eauto].
  - rewrite (sim_step_other k1 k2 s0 c c1 c2 (S (S tid)) HS) in E by lia. discriminate.
Qed.

(* ---------- the theorem *)
Theorem different_studies_any_schedule s a b k1 k2 fuel sched fuel' sched' :
  rpc_local (fst a) = Some k1 -> rpc_local (fst b) = Some k2 -> k1 <> k2 ->
  let c := run_sched fuel sched (start s [a; b]) in
  let c' := run_sched fuel' sched' (start s [a; b]) in
  all_finished c = true -> all_finished c' = true ->
  results c = results c' /\ owners (c_state c) = owners (c_state c') /\
  forall k, get_node k (nodes (c_state c)) = get_node k (nodes (c_state c')).
Proof.
  intros Ha Hb Hne c c' Fc Fc'.
  set (t1 := park (handler (fst a)) (snd a) []). set (t2 := park (handler (fst b)) (snd b) []).
  set (c10 := mkCfg s [t1]). set (c20 := mkCfg s [t2]).
  assert (HS0 : sim k1 k2 s (start s [a; b]) c10 c20).
  { constructor; cbn [start c_state c_threads map]; try reflexivity; try (intros; reflexivity).
    exists t1, t2. split; [reflexivity|]. split; [reflexivity|]. split; [reflexivity|].
    split; apply park_on; try constructor; apply ok_handler; assumption. }
  destruct (run_sched_sim k1 k2 s c10 c20 Hne fuel sched _ c10 c20 HS0 (solo_reach_refl _) (solo_reach_refl _)) as [d1 [d2 [HS [R1 R2]]]].
  destruct (run_sched_sim k1 k2 s c10 c20 Hne fuel' sched' _ c10 c20 HS0 (solo_reach_refl _) (solo_reach_refl _)) as [e1 [e2 [HS' [R1' R2']]]].
  fold c in HS. fold c' in HS'.
  destruct HS as [[u1 [u2 [Hc [Hd1 [Hd2 _]]]]] S1 S2 So Sw]. destruct HS' as [[v1 [v2 [Hc' [He1 [He2 _]]]]] S1' S2' So' Sw'].
  unfold all_finished in Fc, Fc'. rewrite Hc in Fc. rewrite Hc' in Fc'. cbn [forallb] in Fc, Fc'.
  apply andb_true_iff in Fc. destruct Fc as [F1 F2]. apply andb_true_iff in F2. destruct F2 as [F2 _].
  apply andb_true_iff in Fc'. destruct Fc' as [F1' F2']. apply andb_true_iff in F2'. destruct F2' as [F2' _].
  assert (Hfin : forall t, match th_result t with Some _ => true | None => false end = true -> th_result t <> None)
    by (intros t H; destruct (th_result t); [discriminate|discriminate H]).
  assert (E1 : d1 = e1) by (apply (solo_unique c10); auto; eapply finished_stuck; eauto).
  assert (E2 : d2 = e2) by (apply (solo_unique c20); auto; eapply finished_stuck; eauto).
  subst e1 e2. assert (u1 = v1) by congruence. assert (u2 = v2) by congruence. subst v1 v2.
  split; [unfold results; rewrite Hc, Hc'; reflexivity|]. split; [congruence|].
  intros k. destruct (skey_eqb k k1) eqn:K1; [apply skey_eqb_eq in K1; subst k; unfold same_at in *; congruence|].
  destruct (skey_eqb k k2) eqn:K2; [apply skey_eqb_eq in K2; subst k; unfold same_at in *; congruence|].
  assert (N1 : k <> k1) by (intros ->; rewrite skey_eqb_refl in K1; discriminate).
  assert (N2 : k <> k2) by (intros ->; rewrite skey_eqb_refl in K2; discriminate).
  pose proof (So k N1 N2) as P1. pose proof (So' k N1 N2) as P2. unfold same_at in *. congruence.
Qed.
