(* C04: the read-modify-write sections are really protected.
   (1) static: in every handler, every datastore call that writes trials, a study or metadata happens while the per-study
       lock of that study is held, every call that writes an operation record while the operation lock is held, and a study is
       created under its owner's lock (study deletion is a single datastore primitive and takes no lock);
   (2) dynamic: under every schedule no lock is ever held by two threads. *)
From VZ Require Import Base.Prelude Model.Metadata Model.Service Model.ServiceEq Model.Conc Proofs.DeadlockP.
From Coq Require Import Lia.

Definition needs_lock (c : call) : option lockid :=
  match c with
  | CUpdateStudy k _ | CCreateTrial k _ | CUpdateTrial k _ | CDeleteTrial k _ | CUpdateMd k _ _ => Some (LStudy k)
  | CCreateSop k _ | CUpdateSop k _ | CCreateEs k _ | CUpdateEs k _ => Some (LOp k)
  | CCreateStudy k _ => Some (LOwner (fst k))
  | _ => None
  end.

Fixpoint covered (held : list lockid) (p : prog) : Prop :=
  match p with
  | Ret _ | Throw _ => True
  | Call c k => (match needs_lock c with Some l => existsb (lock_eqb l) held = true | None => True end) /\ forall r, covered held (k r)
  | Acquire l k => covered (l :: held) k
  | Release l k => covered (filter (fun x => negb (lock_eqb x l)) held) k
  | Pythia _ k => forall o, covered held (k o)
  end.

Lemma lock_refl l : lock_eqb l l = true.
Proof. destruct l; simpl; try apply N.eqb_refl; unfold skey_eqb; rewrite !N.eqb_refl; reflexivity. Qed.

Ltac cov_go := repeat progress (
  cbn [covered needs_lock handler h_create_study h_get_study h_list_studies h_delete_study h_set_study_state h_create_trial
       h_suggest h_get_trial h_list_trials h_add_measurement h_complete_trial h_stop_trial h_delete_trial h_check_early_stop
       h_update_metadata h_list_optimal h_get_operation guard_study with_trial expect_unit finish_op es_compute
       existsb filter negb fst];
  rewrite ?lock_refl; cbn [orb negb filter existsb];
  intros;
  try match goal with
      | |- _ /\ _ => split
      | |- True => exact I
      | |- true = true => reflexivity
      | |- (_ || true) = true => apply orb_true_r
      | |- context [match ?x with _ => _ end] => destruct x
      | |- context [if ?b then _ else _] => destruct b
      end).

Lemma held_mem l held : existsb (lock_eqb l) held = true -> forall l', existsb (lock_eqb l) (l' :: held) = true.
Proof. intros H l'. cbn [existsb]. rewrite H. apply orb_true_r. Qed.

Lemma cov_assign_loop k c : forall pool need out cont held, existsb (lock_eqb (LStudy k)) held = true ->
  (forall o, covered held (cont o)) -> covered held (assign_loop k c pool need out cont).
Proof.
  induction pool as [|t rest IH]; intros need out cont held Hh Hc; destruct need; cbn [assign_loop]; auto.
  cbn [covered needs_lock]. split; [exact Hh|]. intros r. destruct r; cbn [expect_unit covered]; auto.
Qed.
Lemma cov_create_loop k c : forall sugs need out cont held, existsb (lock_eqb (LStudy k)) held = true ->
  (forall l o, covered held (cont l o)) -> covered held (create_loop k c sugs need out cont).
Proof.
  induction sugs as [|p rest IH]; intros need out cont held Hh Hc; destruct need; cbn [create_loop]; auto.
  cbn [covered needs_lock]. split; [exact I|]. intros r. destruct r as [[]|]; cbn [covered]; auto.
  split; [exact Hh|]. intros r2. destruct r2; cbn [expect_unit covered]; auto.
Qed.
Lemma cov_remain_loop k : forall rem cont held, existsb (lock_eqb (LStudy k)) held = true ->
  covered held cont -> covered held (remain_loop k rem cont).
Proof.
  induction rem as [|p rest IH]; intros cont held Hh Hc; cbn [remain_loop]; auto.
  cbn [covered needs_lock]. split; [exact I|]. intros r. destruct r as [[]|]; cbn [covered]; auto.
  split; [exact Hh|]. intros r2. destruct r2; cbn [expect_unit covered]; auto.
Qed.
Lemma cov_decisions_loop k : forall ds cont held, existsb (lock_eqb (LOp k)) held = true ->
  covered held cont -> covered held (decisions_loop k ds cont).
Proof.
  induction ds as [|[id b] rest IH]; intros cont held Hh Hc; cbn [decisions_loop]; auto.
  cbn [covered needs_lock]. split; [exact I|]. intros r.
  destruct r as [[]|[]]; cbn [covered needs_lock]; auto;
    repeat (split; [try exact Hh; try exact I|]; intros ?; try match goal with |- covered _ (expect_unit ?x _) => destruct x; cbn [expect_unit covered]; auto end).
Qed.

Lemma cov_finish_op k o err out held : existsb (lock_eqb (LOp k)) held = true -> covered held (finish_op k o err out).
Proof. intros H. unfold finish_op. cbn [covered needs_lock]. split; [exact H|]. intros r. destruct r; cbn [expect_unit covered]; exact I. Qed.

Lemma skey_refl k : skey_eqb k k = true.
Proof. unfold skey_eqb. rewrite !N.eqb_refl. reflexivity. Qed.
Ltac lk := cbn [lock_eqb existsb filter negb orb]; rewrite ?skey_refl, ?N.eqb_refl, ?orb_true_r; cbn [negb orb existsb filter].

Ltac cov_auto :=
  repeat first
    [ apply cov_finish_op; repeat lk; reflexivity
    | apply cov_assign_loop; [repeat lk; reflexivity|intros ?]
    | apply cov_create_loop; [repeat lk; reflexivity|intros ? ?]
    | apply cov_remain_loop; [repeat lk; reflexivity|]
    | apply cov_decisions_loop; [repeat lk; reflexivity|]
    | progress (cbn [covered needs_lock expect_unit fst]; lk)
    | match goal with
      | |- _ /\ _ => split
      | |- forall _, _ => intros ?
      | |- True => exact I
      | |- true = true => reflexivity
      | |- (_ || true) = true => apply orb_true_r
      | |- covered _ (match ?x with _ => _ end) => destruct x
      | |- covered _ (if ?b then _ else _) => destruct b
      | |- covered _ (expect_unit ?x _) => destruct x
      end ].

Theorem writes_are_covered r : covered [] (handler r).
Proof.
  destruct r; cbn [handler];
    unfold h_create_study, h_get_study, h_list_studies, h_delete_study, h_set_study_state, h_create_trial, h_get_trial, h_suggest,
      h_list_trials, h_add_measurement, h_complete_trial, h_stop_trial, h_delete_trial, h_check_early_stop, h_update_metadata,
      h_list_optimal, h_get_operation, guard_study, with_trial, es_compute;
    cov_auto.
Qed.

(* ---------- no lock is ever held by two threads *)
Definition exclusive (c : cfg) : Prop :=
  forall i j ti tj l, i <> j -> nth_error (c_threads c) i = Some ti -> nth_error (c_threads c) j = Some tj ->
    existsb (lock_eqb l) (th_held ti) = true -> existsb (lock_eqb l) (th_held tj) = false.

Lemma nth_set_nth_same {A} (x : A) : forall n l, (n < length l)%nat -> nth_error (set_nth n x l) n = Some x.
Proof. induction n as [|n IH]; intros [|h t] H; simpl in *; try lia; [reflexivity|apply IH; lia]. Qed.
Lemma nth_set_nth_other {A} (x : A) : forall n m l, n <> m -> nth_error (set_nth n x l) m = nth_error l m.
Proof.
  induction n as [|n IH]; intros [|m] [|h t] H; simpl; try reflexivity; try congruence. apply IH. congruence.
Qed.

Lemma park_held_sub p : forall oracle held l, existsb (lock_eqb l) (th_held (park p oracle held)) = true ->
  existsb (lock_eqb l) held = true.
Proof.
  induction p as [r|e|c k IH|l0 k IH|l0 k IH|q k IH]; intros oracle held l H; cbn [park th_held] in H; try discriminate; try exact H.
  - apply IH in H. apply existsb_exists in H. destruct H as [x [Hx He]]. apply filter_In in Hx. apply existsb_exists. exists x. tauto.
  - eapply IH; eauto.
Qed.

Lemma held_by_any_spec ths l : held_by_any ths l = false -> forall t, In t ths -> existsb (lock_eqb l) (th_held t) = false.
Proof.
  unfold held_by_any. intros H t Ht. apply not_true_is_false. intros Hc.
  assert (existsb (fun t0 => existsb (lock_eqb l) (th_held t0)) ths = true) by (apply existsb_exists; exists t; auto). congruence.
Qed.

Lemma lock_eqb_sym a b : lock_eqb a b = lock_eqb b a.
Proof.
  destruct a, b; simpl; try reflexivity; try apply N.eqb_sym; unfold skey_eqb; rewrite (N.eqb_sym (fst k)), (N.eqb_sym (snd k)); reflexivity.
Qed.
Lemma lock_eqb_true a b : lock_eqb a b = true -> a = b.
Proof.
  destruct a, b; simpl; intros H; try discriminate.
  - apply N.eqb_eq in H. subst. reflexivity.
  - unfold skey_eqb in H. apply andb_true_iff in H. destruct H as [H1 H2]. apply N.eqb_eq in H1, H2. destruct k, k0; simpl in *; subst; reflexivity.
  - unfold skey_eqb in H. apply andb_true_iff in H. destruct H as [H1 H2]. apply N.eqb_eq in H1, H2. destruct k, k0; simpl in *; subst; reflexivity.
Qed.

Lemma cstep_exclusive c tid c' : exclusive c -> cstep c tid = Some c' -> exclusive c'.
Proof.
  intros Hx Hs. unfold cstep in Hs. destruct (nth_error (c_threads c) tid) as [t|] eqn:Et; [|discriminate].
  destruct (enabled (c_threads c) t) eqn:Een; [|discriminate].
  assert (Hlen : (tid < length (c_threads c))%nat) by (apply nth_error_Some; congruence).
  (* the new thread of tid holds a subset of newheld; what is in newheld is not held by any other thread *)
  assert (Hgen : forall newt newheld s',
            c' = mkCfg s' (set_nth tid newt (c_threads c)) ->
            (forall l, existsb (lock_eqb l) (th_held newt) = true -> existsb (lock_eqb l) newheld = true) ->
            (forall l j tj, j <> tid -> nth_error (c_threads c) j = Some tj -> existsb (lock_eqb l) newheld = true ->
                            existsb (lock_eqb l) (th_held tj) = false) ->
            exclusive c').
  { intros newt newheld s' -> Hsub Hfree i j ti tj l Hij Hi Hj Hl. cbn [c_threads] in Hi, Hj.
    destruct (Nat.eq_dec i tid) as [->|Hi'].
    - rewrite (nth_set_nth_same newt tid _ Hlen) in Hi. injection Hi as <-.
      rewrite (nth_set_nth_other newt tid j _ (fun e => Hij e)) in Hj by congruence.
      apply (Hfree l j tj); [congruence|exact Hj|apply Hsub; exact Hl].
    - rewrite (nth_set_nth_other newt tid i) in Hi by congruence.
      destruct (Nat.eq_dec j tid) as [->|Hj'].
      + rewrite (nth_set_nth_same newt tid _ Hlen) in Hj. injection Hj as <-.
        apply not_true_is_false. intros Hc. apply Hsub in Hc.
        pose proof (Hfree l i ti Hi' Hi Hc) as Hf. congruence.
      + rewrite (nth_set_nth_other newt tid j) in Hj by congruence. exact (Hx i j ti tj l Hij Hi Hj Hl). }
  destruct (th_prog t) as [| |cl k|l k| |] eqn:Ep; try discriminate.
  - destruct (exec cl (c_state c)) as [s' r]. injection Hs as <-.
    apply (Hgen _ (th_held t) s' eq_refl); [intros l; apply park_held_sub|].
    intros l j tj Hj Hn Hl. exact (Hx tid j t tj l (fun e => Hj (eq_sym e)) Et Hn Hl).
  - injection Hs as <-.
    apply (Hgen _ (l :: th_held t) (c_state c) eq_refl); [intros l0; apply park_held_sub|].
    intros l0 j tj Hj Hn Hl0. cbn [existsb] in Hl0. apply orb_true_iff in Hl0. destruct Hl0 as [Hl0|Hl0].
    + apply lock_eqb_true in Hl0. subst l0. unfold enabled in Een. destruct (th_result t); [discriminate|]. rewrite Ep in Een.
      apply negb_true_iff in Een. apply (held_by_any_spec _ _ Een tj). eapply nth_error_In; eauto.
    + exact (Hx tid j t tj l0 (fun e => Hj (eq_sym e)) Et Hn Hl0).
Qed.

Lemma start_exclusive s rpcs : exclusive (start s rpcs).
Proof.
  intros i j ti tj l _ Hi _ Hl. unfold start in Hi. cbn [c_threads] in Hi. apply nth_error_In in Hi. apply in_map_iff in Hi.
  destruct Hi as [ro [<- _]]. apply park_held_sub in Hl. discriminate Hl.
Qed.

Theorem mutual_exclusion s rpcs fuel : forall sched, exclusive (run_sched fuel sched (start s rpcs)).
Proof.
  assert (H : forall fuel sched c, exclusive c -> exclusive (run_sched fuel sched c)).
  { induction fuel0 as [|f IH]; intros sched c Hx; cbn [run_sched]; [exact Hx|].
    destruct (match sched with
              | [] => first_enabled c
              | tid :: _ => match cstep c tid with Some _ => Some tid | None => first_enabled c end
              end) as [tid|]; [|exact Hx].
    destruct (cstep c tid) as [c'|] eqn:E; [|exact Hx]. apply IH. eapply cstep_exclusive; eauto. }
  intros sched. apply H. apply start_exclusive.
Qed.
