(* Proofs about Model/Warp.v *)
From VZ Require Import Base.Prelude Model.Warp.
From Coq Require Import Lia Lqa Setoid Morphisms.
Open Scope Q_scope.

(* ---------- min / max / sums *)
Lemma qmin_l_le_d d l : qmin_l d l <= d.
Proof. induction l as [|x r IH]; simpl; [apply Qle_refl|]. eapply Qle_trans; [apply Q.le_min_r|exact IH]. Qed.
Lemma qmin_l_le d l q : In q l -> qmin_l d l <= q.
Proof.
  induction l as [|x r IH]; simpl; [tauto|]. intros [->|H].
  - apply Q.le_min_l.
  - eapply Qle_trans; [apply Q.le_min_r|apply IH; exact H].
Qed.
Lemma qmax_l_ge_d d l : d <= qmax_l d l.
Proof. induction l as [|x r IH]; simpl; [apply Qle_refl|]. eapply Qle_trans; [exact IH|apply Q.le_max_r]. Qed.
Lemma qmax_l_ge d l q : In q l -> q <= qmax_l d l.
Proof.
  induction l as [|x r IH]; simpl; [tauto|]. intros [->|H].
  - apply Q.le_max_l.
  - eapply Qle_trans; [apply IH; exact H|apply Q.le_max_r].
Qed.
Lemma qmin_le l q : In q l -> qmin l <= q.
Proof. destruct l as [|x r]; simpl; [tauto|]. intros [->|H]; [apply qmin_l_le_d|apply qmin_l_le; exact H]. Qed.
Lemma qmax_ge l q : In q l -> q <= qmax l.
Proof. destruct l as [|x r]; simpl; [tauto|]. intros [->|H]; [apply qmax_l_ge_d|apply qmax_l_ge; exact H]. Qed.
Lemma qmin_le_qmax l : l <> [] -> qmin l <= qmax l.
Proof. destruct l as [|x r]; [congruence|]. intros _. eapply Qle_trans; [apply (qmin_le (x :: r) x)|apply (qmax_ge (x :: r) x)]; simpl; auto. Qed.

Lemma finite_vals_In l q : In (Some q) l <-> In q (finite_vals l).
Proof.
  induction l as [|[y|] r IH]; simpl; [tauto| |].
  - rewrite <- IH. split; intros [H|H]; auto; left; congruence.
  - rewrite <- IH. split; [intros [H|H]; [discriminate|auto]|auto].
Qed.

(* ---------- InfeasibleWarperComponent *)
Theorem infeasible_length l : length (infeasible_warp l) = length l.
Proof. unfold infeasible_warp. destruct (finite_vals l); apply map_length. Qed.

Lemma infeasible_bad_below l q : In (Some q) l -> ip_bad (infeasible_fit l) < q.
Proof.
  intros H. apply finite_vals_In in H. unfold infeasible_fit. cbn [ip_bad].
  pose proof (qmin_le _ _ H) as H1.
  assert (Hne : finite_vals l <> []) by (intros E; rewrite E in H; exact H).
  pose proof (qmin_le_qmax _ Hne) as H2. lra.
Qed.

Local Opaque infeasible_fit.
(* the i-th output in terms of the i-th input *)
Lemma infeasible_nth l i x : finite_vals l <> [] -> nth_error l i = Some x ->
  nth_error (infeasible_warp l) i =
  Some (match x with Some q => q + ip_shift (infeasible_fit l) | None => ip_bad (infeasible_fit l) + ip_shift (infeasible_fit l) end).
Proof.
  intros Hne Hi. unfold infeasible_warp. destruct (finite_vals l) eqn:E; [congruence|].
  cbv zeta. rewrite nth_error_map. unfold lab in *. rewrite Hi. reflexivity.
Qed.

(* feasible entries keep their order exactly, equal entries stay equal *)
Theorem infeasible_order l i j a b wa wb :
  nth_error l i = Some (Some a) -> nth_error l j = Some (Some b) ->
  nth_error (infeasible_warp l) i = Some wa -> nth_error (infeasible_warp l) j = Some wb ->
  (a < b <-> wa < wb) /\ (a == b <-> wa == wb).
Proof.
  intros Hi Hj Hwi Hwj.
  assert (Hne : finite_vals l <> []).
  { intros E. apply nth_error_In in Hi. apply finite_vals_In in Hi. rewrite E in Hi. exact Hi. }
  rewrite (infeasible_nth l i _ Hne Hi) in Hwi. rewrite (infeasible_nth l j _ Hne Hj) in Hwj.
  inversion Hwi; inversion Hwj; subst. generalize (ip_shift (infeasible_fit l)). intros s.
  split; split; intros H; lra.
Qed.

(* an infeasible entry lands strictly below every feasible one *)
Theorem infeasible_below_feasible l i j b wi wj :
  nth_error l i = Some None -> nth_error l j = Some (Some b) ->
  nth_error (infeasible_warp l) i = Some wi -> nth_error (infeasible_warp l) j = Some wj -> wi < wj.
Proof.
  intros Hi Hj Hwi Hwj.
  assert (Hne : finite_vals l <> []).
  { intros E. apply nth_error_In in Hj. apply finite_vals_In in Hj. rewrite E in Hj. exact Hj. }
  rewrite (infeasible_nth l i _ Hne Hi) in Hwi. rewrite (infeasible_nth l j _ Hne Hj) in Hwj.
  inversion Hwi; inversion Hwj; subst.
  pose proof (infeasible_bad_below l b (nth_error_In _ _ Hj)). lra.
Qed.

Theorem infeasible_all_missing l : finite_vals l = [] -> infeasible_warp l = map (fun _ => 0) l.
Proof. intros E. unfold infeasible_warp. rewrite E. reflexivity. Qed.

(* unwarp undoes warp on the feasible entries *)
Theorem infeasible_unwarp_warp l i a w :
  nth_error l i = Some (Some a) -> nth_error (infeasible_unwarp l (infeasible_warp l)) i = Some w -> w == a.
Proof.
  intros Hi Hw.
  assert (Hne : finite_vals l <> []).
  { intros E. apply nth_error_In in Hi. apply finite_vals_In in Hi. rewrite E in Hi. exact Hi. }
  unfold infeasible_unwarp in Hw. rewrite nth_error_map, (infeasible_nth l i _ Hne Hi) in Hw. simpl in Hw.
  inversion Hw. lra.
Qed.

(* ---------- sorting, unique values, counting *)
Lemma In_insert_q a l x : In x (insert_q a l) <-> x = a \/ In x l.
Proof.
  induction l as [|y r IH]; simpl; [intuition|].
  destruct (Qle_bool a y); simpl; [intuition|]. rewrite IH. intuition.
Qed.
Lemma In_sort_q l x : In x (sort_q l) <-> In x l.
Proof.
  induction l as [|a r IH]; simpl; [tauto|]. unfold sort_q in *. simpl. rewrite In_insert_q, IH. intuition.
Qed.
Lemma dedup_cons2 x y r : dedup_sorted (x :: y :: r) = if Qeq_bool x y then dedup_sorted (y :: r) else x :: dedup_sorted (y :: r).
Proof. reflexivity. Qed.
Lemma dedup_keeps l : forall x, In x l -> exists z, In z (dedup_sorted l) /\ z == x.
Proof.
  induction l as [|a r IH]; intros x; [simpl; tauto|]. destruct r as [|b r'].
  - simpl. intros [->|[]]. exists x. split; [auto|reflexivity].
  - rewrite dedup_cons2. intros [->|H].
    + destruct (Qeq_bool x b) eqn:E.
      * apply Qeq_bool_eq in E. destruct (IH b (or_introl eq_refl)) as [z [Hz1 Hz2]].
        exists z. split; [exact Hz1|]. rewrite Hz2. symmetry. exact E.
      * exists x. split; [left; reflexivity|reflexivity].
    + destruct (IH x H) as [z [Hz1 Hz2]]. exists z. split; [|exact Hz2].
      destruct (Qeq_bool a b); [exact Hz1|right; exact Hz1].
Qed.
Lemma dedup_sub l z : In z (dedup_sorted l) -> In z l.
Proof.
  induction l as [|a r IH]; [simpl; tauto|]. destruct r as [|b r'].
  - simpl. tauto.
  - rewrite dedup_cons2. destruct (Qeq_bool a b).
    + intros H. right. apply IH. exact H.
    + intros [->|H]; [left; reflexivity|right; apply IH; exact H].
Qed.
Lemma unique_has f y : In y f -> exists z, In z (unique_q f) /\ z == y.
Proof. intros H. apply dedup_keeps. apply (proj2 (In_sort_q f y)). exact H. Qed.
Lemma unique_sub f z : In z (unique_q f) -> In z f.
Proof. intros H. apply dedup_sub in H. apply (proj1 (In_sort_q f z)) in H. exact H. Qed.

Lemma filter_len_le {A} (p q : A -> bool) l : (forall x, p x = true -> q x = true) -> (length (filter p l) <= length (filter q l))%nat.
Proof.
  intros Hpq. induction l as [|a r IH]; simpl; [lia|].
  destruct (p a) eqn:Ep; [rewrite (Hpq a Ep); simpl; lia|]. destruct (q a); simpl; lia.
Qed.
Lemma filter_len_lt {A} (p q : A -> bool) l : (forall x, p x = true -> q x = true) ->
  (exists x, In x l /\ p x = false /\ q x = true) -> (length (filter p l) < length (filter q l))%nat.
Proof.
  intros Hpq [x [Hin [Hp Hq]]]. induction l as [|a r IH]; simpl in *; [tauto|].
  pose proof (filter_len_le p q r Hpq) as Hle.
  destruct Hin as [->|Hin].
  - rewrite Hp, Hq. simpl. lia.
  - specialize (IH Hin). destruct (p a) eqn:Ep; [rewrite (Hpq a Ep); simpl; lia|]. destruct (q a); simpl; lia.
Qed.

Lemma Qle_bool_false x y : Qle_bool x y = false <-> y < x.
Proof.
  split; intros H.
  - apply Qnot_le_lt. intros Hle. apply Qle_bool_iff in Hle. congruence.
  - destruct (Qle_bool x y) eqn:E; [|reflexivity]. apply Qle_bool_iff in E. lra.
Qed.
Lemma Qle_bool_compat_l x x' y : x == x' -> Qle_bool x y = Qle_bool x' y.
Proof.
  intros H. destruct (Qle_bool x y) eqn:E1, (Qle_bool x' y) eqn:E2; try reflexivity.
  - apply Qle_bool_iff in E1. apply Qle_bool_false in E2. lra.
  - apply Qle_bool_iff in E2. apply Qle_bool_false in E1. lra.
Qed.
Lemma Qle_bool_compat_r x y y' : y == y' -> Qle_bool x y = Qle_bool x y'.
Proof.
  intros H. destruct (Qle_bool x y) eqn:E1, (Qle_bool x y') eqn:E2; try reflexivity.
  - apply Qle_bool_iff in E1. apply Qle_bool_false in E2. lra.
  - apply Qle_bool_iff in E2. apply Qle_bool_false in E1. lra.
Qed.

Lemma count_below_compat u y y' : y == y' -> count_below u y = count_below u y'.
Proof.
  intros H. unfold count_below. f_equal. apply filter_ext. intros z. rewrite (Qle_bool_compat_l y y' z H). reflexivity.
Qed.
Lemma count_below_lt u y m : (exists z, In z u /\ z == y) -> y < m -> (count_below u y < count_below u m)%nat.
Proof.
  intros [z [Hz1 Hz2]] Hlt. unfold count_below. apply filter_len_lt.
  - intros x Hx. apply negb_true_iff in Hx. apply Qle_bool_false in Hx. apply negb_true_iff. apply Qle_bool_false. lra.
  - exists z. split; [exact Hz1|]. split.
    + apply negb_false_iff. apply Qle_bool_iff. lra.
    + apply negb_true_iff. apply Qle_bool_false. lra.
Qed.

(* ---------- HalfRankComponent: the quantiles handed to the normal quantile function *)
Definition hr_denom (u : list Q) (med : Q) : Q := inject_Z (Z.of_nat (count_below u med)) + (if qmem med u then 1 # 2 else 0).
Definition hr_quantile (u : list Q) (med y : Q) : Q :=
  (1 # 2) * (inject_Z (Z.of_nat (S (count_below u y))) - (1 # 2)) / hr_denom u med.

Lemma inject_nat_le a b : (a <= b)%nat -> inject_Z (Z.of_nat a) <= inject_Z (Z.of_nat b).
Proof. intros H. rewrite <- Zle_Qle. lia. Qed.
Lemma inject_nat_lt a b : (a < b)%nat -> inject_Z (Z.of_nat a) < inject_Z (Z.of_nat b).
Proof. intros H. rewrite <- Zlt_Qlt. lia. Qed.

Lemma hr_denom_ge u med : inject_Z (Z.of_nat (count_below u med)) <= hr_denom u med.
Proof. unfold hr_denom. destruct (qmem med u); lra. Qed.

Theorem hr_quantile_range u med y : (exists z, In z u /\ z == y) -> y < med ->
  0 < hr_quantile u med y /\ hr_quantile u med y < 1 # 2.
Proof.
  intros Hin Hlt. pose proof (count_below_lt u y med Hin Hlt) as Hc.
  pose proof (hr_denom_ge u med) as Hd.
  pose proof (inject_nat_le (S (count_below u y)) (count_below u med) Hc) as H1.
  pose proof (inject_nat_le 1 (S (count_below u y)) ltac:(lia)) as H2. change (inject_Z (Z.of_nat 1)) with 1 in H2.
  unfold hr_quantile.
  set (R := inject_Z (Z.of_nat (S (count_below u y)))) in *.
  set (K := inject_Z (Z.of_nat (count_below u med))) in *.
  set (D := hr_denom u med) in *.
  assert (HD : 0 < D) by lra.
  split.
  - apply Qlt_shift_div_l; [exact HD|]. lra.
  - apply Qlt_shift_div_r; [exact HD|]. lra.
Qed.

Theorem hr_quantile_mono u med y1 y2 : (exists z, In z u /\ z == y1) -> y1 < y2 -> y2 < med ->
  hr_quantile u med y1 < hr_quantile u med y2.
Proof.
  intros Hin H12 H2m. pose proof (count_below_lt u y1 y2 Hin H12) as Hc.
  assert (Hin' : exists z, In z u /\ z == y1) by exact Hin.
  pose proof (count_below_lt u y1 med Hin ltac:(lra)) as Hc1.
  pose proof (hr_denom_ge u med) as Hd.
  pose proof (inject_nat_lt (S (count_below u y1)) (S (count_below u y2)) ltac:(lia)) as H1.
  pose proof (inject_nat_le 1 (count_below u med) ltac:(lia)) as H3. change (inject_Z (Z.of_nat 1)) with 1 in H3.
  unfold hr_quantile.
  set (R1 := inject_Z (Z.of_nat (S (count_below u y1)))) in *.
  set (R2 := inject_Z (Z.of_nat (S (count_below u y2)))) in *.
  set (D := hr_denom u med) in *.
  assert (HD : 0 < D) by lra.
  unfold Qdiv. apply Qmult_lt_compat_r; [apply Qinv_lt_0_compat; exact HD|]. lra.
Qed.

Theorem hr_quantile_compat u med y y' : y == y' -> hr_quantile u med y = hr_quantile u med y'.
Proof. intros H. unfold hr_quantile. rewrite (count_below_compat u y y' H). reflexivity. Qed.

(* ---------- the variance estimate is positive whenever some unique value differs from the threshold *)
Lemma qsum_nonneg l : (forall x, In x l -> 0 <= x) -> 0 <= qsum l.
Proof.
  induction l as [|a r IH]; simpl; intros H; [lra|].
  pose proof (H a (or_introl eq_refl)). pose proof (IH (fun x Hx => H x (or_intror Hx))). lra.
Qed.
Lemma qsum_pos l : (forall x, In x l -> 0 <= x) -> (exists x, In x l /\ 0 < x) -> 0 < qsum l.
Proof.
  induction l as [|a r IH]; simpl; intros H [x [Hin Hx]]; [tauto|].
  pose proof (H a (or_introl eq_refl)) as Ha.
  pose proof (qsum_nonneg r (fun x Hx => H x (or_intror Hx))) as Hr.
  destruct Hin as [->|Hin]; [lra|].
  pose proof (IH (fun x Hx => H x (or_intror Hx)) (ex_intro _ x (conj Hin Hx))). lra.
Qed.
Lemma qlen_pos l : l <> [] -> 0 < qlen l.
Proof.
  destruct l as [|a r]; [congruence|]. intros _. unfold qlen. change 0 with (inject_Z 0). rewrite <- Zlt_Qlt. simpl. lia.
Qed.

Lemma sq_nonneg d : 0 <= d * d.
Proof.
  destruct (Qlt_le_dec d 0) as [H|H].
  - setoid_replace (d * d) with ((- d) * (- d)) by ring. apply Qmult_le_0_compat; lra.
  - apply Qmult_le_0_compat; exact H.
Qed.
Lemma sq_pos d : ~ d == 0 -> 0 < d * d.
Proof.
  intros Hd. destruct (Qlt_le_dec d 0) as [H|H].
  - setoid_replace (d * d) with ((- d) * (- d)) by ring. apply Qmult_lt_0_compat; lra.
  - destruct (Qlt_le_dec 0 d) as [H'|H']; [apply Qmult_lt_0_compat; exact H'|]. exfalso. apply Hd. lra.
Qed.

Theorem var_all_pos u thr : (exists z, In z u /\ ~ z == thr) -> 0 < var_all u thr.
Proof.
  intros [z [Hz1 Hz2]]. unfold var_all.
  apply Qlt_shift_div_l; [apply qlen_pos; intros E; rewrite E in Hz1; exact Hz1|]. rewrite Qmult_0_l.
  apply qsum_pos.
  - intros x Hx. apply in_map_iff in Hx. destruct Hx as [y [<- _]]. apply sq_nonneg.
  - exists ((z - thr) * (z - thr)). split; [apply in_map_iff; exists z; auto|].
    apply sq_pos. intros E. apply Hz2. lra.
Qed.

Theorem var_used_pos u thr : (exists z, In z u /\ ~ z == thr) -> 0 < var_used u thr.
Proof.
  intros H. unfold var_used. destruct (Qle_bool (var_good_half u thr) 0) eqn:E.
  - apply var_all_pos. exact H.
  - apply Qle_bool_false in E. exact E.
Qed.

(* ---------- HalfRankComponent: the warped labels keep the order of the observed ones *)
Section HalfRankOrder.
  Variable ppf : Q -> Q.          (* scipy.stats.norm.ppf *)
  Variable root : Q -> Q.         (* np.sqrt *)
  Hypothesis ppf_mono : forall a b, 0 < a -> a < b -> b < 1 -> ppf a < ppf b.
  Hypothesis ppf_neg : forall a, 0 < a -> a < 1 # 2 -> ppf a < 0.
  Hypothesis root_pos : forall v, 0 < v -> 0 < root v.

  Definition hr_entry (l : list lab) (y : Q) : Q :=
    let f := finite_vals l in let med := median_q f in let u := unique_q f in
    if Qle_bool med y then y else ppf (hr_quantile u med y) * root (var_used u med) + med.

  Lemma halfrank_nth l i y : length l <> 1%nat -> nth_error l i = Some (Some y) ->
    nth_error (halfrank_num ppf root l) i = Some (Some (hr_entry l y)).
  Proof.
    intros Hlen Hi. unfold halfrank_num.
    destruct l as [|x [|x' r]]; [destruct i; discriminate|simpl in Hlen; congruence|].
    unfold halfrank_sym. rewrite !nth_error_map. unfold lab in *. rewrite Hi. simpl. unfold hr_entry.
    destruct (Qle_bool _ y); reflexivity.
  Qed.

  Lemma halfrank_nth_missing l i : length l <> 1%nat -> nth_error l i = Some None ->
    nth_error (halfrank_num ppf root l) i = Some None.
  Proof.
    intros Hlen Hi. unfold halfrank_num.
    destruct l as [|x [|x' r]]; [destruct i; discriminate|simpl in Hlen; congruence|].
    unfold halfrank_sym. rewrite !nth_error_map. unfold lab in *. rewrite Hi. reflexivity.
  Qed.

  Lemma std_pos l y : In (Some y) l -> y < median_q (finite_vals l) ->
    0 < root (var_used (unique_q (finite_vals l)) (median_q (finite_vals l))).
  Proof.
    intros Hin Hlt. apply root_pos. apply var_used_pos.
    apply finite_vals_In in Hin. destruct (unique_has _ _ Hin) as [z [Hz1 Hz2]].
    exists z. split; [exact Hz1|]. intros E. lra.
  Qed.

  Theorem halfrank_entry_order l a b : In (Some a) l -> In (Some b) l -> a < b -> hr_entry l a < hr_entry l b.
  Proof.
    intros Ha Hb Hab. unfold hr_entry.
    set (f := finite_vals l). set (med := median_q f). set (u := unique_q f).
    assert (Hua : exists z, In z u /\ z == a) by (apply unique_has; apply finite_vals_In; exact Ha).
    assert (Hub : exists z, In z u /\ z == b) by (apply unique_has; apply finite_vals_In; exact Hb).
    destruct (Qle_bool med a) eqn:Ea, (Qle_bool med b) eqn:Eb.
    - exact Hab.
    - apply Qle_bool_iff in Ea. apply Qle_bool_false in Eb. lra.
    - apply Qle_bool_false in Ea. apply Qle_bool_iff in Eb.
      destruct (hr_quantile_range u med a Hua Ea) as [Q1 Q2].
      pose proof (ppf_neg _ Q1 Q2) as Hp. pose proof (std_pos l a Ha Ea) as Hs. fold f med u in Hs.
      assert (ppf (hr_quantile u med a) * root (var_used u med) < 0).
      { setoid_replace 0 with (0 * root (var_used u med)) by ring. apply Qmult_lt_compat_r; assumption. }
      lra.
    - apply Qle_bool_false in Ea. apply Qle_bool_false in Eb.
      destruct (hr_quantile_range u med a Hua Ea) as [Q1 Q2].
      destruct (hr_quantile_range u med b Hub Eb) as [Q3 Q4].
      pose proof (hr_quantile_mono u med a b Hua Hab Eb) as Hq.
      pose proof (ppf_mono _ _ Q1 Hq ltac:(lra)) as Hp. pose proof (std_pos l a Ha Ea) as Hs. fold f med u in Hs.
      assert (ppf (hr_quantile u med a) * root (var_used u med) < ppf (hr_quantile u med b) * root (var_used u med)).
      { apply Qmult_lt_compat_r; assumption. }
      lra.
  Qed.

  Theorem halfrank_entry_ties l a b : a == b -> hr_entry l a == hr_entry l b.
  Proof.
    intros Hab. unfold hr_entry. rewrite (Qle_bool_compat_r _ a b Hab).
    destruct (Qle_bool _ b); [exact Hab|]. rewrite (hr_quantile_compat _ _ a b Hab). reflexivity.
  Qed.

  (* values at or above the median are not touched; values below it move below the median *)
  Theorem halfrank_entry_shape l a : In (Some a) l ->
    (median_q (finite_vals l) <= a -> hr_entry l a = a) /\
    (a < median_q (finite_vals l) -> hr_entry l a < median_q (finite_vals l)).
  Proof.
    intros Ha. unfold hr_entry. split; intros H.
    - apply Qle_bool_iff in H. rewrite H. reflexivity.
    - assert (E : Qle_bool (median_q (finite_vals l)) a = false) by (apply Qle_bool_false; exact H). rewrite E.
      assert (Hua : exists z, In z (unique_q (finite_vals l)) /\ z == a) by (apply unique_has; apply finite_vals_In; exact Ha).
      destruct (hr_quantile_range _ _ a Hua H) as [Q1 Q2].
      pose proof (ppf_neg _ Q1 Q2) as Hp. pose proof (std_pos l a Ha H) as Hs.
      assert (ppf (hr_quantile (unique_q (finite_vals l)) (median_q (finite_vals l)) a) *
              root (var_used (unique_q (finite_vals l)) (median_q (finite_vals l))) < 0).
      { setoid_replace 0 with (0 * root (var_used (unique_q (finite_vals l)) (median_q (finite_vals l)))) by ring.
        apply Qmult_lt_compat_r; assumption. }
      lra.
  Qed.
End HalfRankOrder.

(* ---------- affine maps (ZScoreLabels, NormalizeLabels) *)
Theorem affine_order a b x y : 0 < a -> (x < y <-> a * x + b < a * y + b).
Proof.
  intros Ha. split; intros H.
  - assert (a * x < a * y) by (rewrite !(Qmult_comm a); apply Qmult_lt_compat_r; assumption). lra.
  - destruct (Qlt_le_dec x y) as [Hl|Hl]; [exact Hl|]. exfalso.
    assert (a * y <= a * x) by (rewrite !(Qmult_comm a); apply Qmult_le_compat_r; lra). lra.
Qed.

Theorem normalize_scale_pos lo hi mn mx : lo < hi -> mn < mx -> 0 < (hi - lo) / (mx - mn).
Proof. intros H1 H2. apply Qlt_shift_div_l; lra. Qed.

(* ---------- composition: order-preserving stages compose *)
Theorem strict_mono_compose {A B C} (ltA : A -> A -> Prop) (ltB : B -> B -> Prop) (ltC : C -> C -> Prop) (f : A -> B) (g : B -> C) :
  (forall x y, ltA x y -> ltB (f x) (f y)) -> (forall x y, ltB x y -> ltC (g x) (g y)) ->
  forall x y, ltA x y -> ltC (g (f x)) (g (f y)).
Proof. intros Hf Hg x y H. apply Hg, Hf, H. Qed.
