From Coq Require Import Sorting.Sorted Sorting.Permutation.
From VZ Require Import Base.Prelude Model.External.

(* ---- casts: declared external type and value *)
Lemma Qfloor_inject z : Qfloor (inject_Z z) = z.
Proof. unfold Qfloor, inject_Z. simpl. apply Z.div_1_r. Qed.
Lemma Qceiling_inject z : Qceiling (inject_Z z) = z.
Proof. unfold Qceiling. change (- inject_Z z)%Q with (inject_Z (- z)). rewrite Qfloor_inject. lia. Qed.
Lemma qtrunc_inject z : qtrunc (inject_Z z) = z.
Proof. unfold qtrunc. destruct (Qle_bool 0 (inject_Z z)); [apply Qfloor_inject|apply Qceiling_inject]. Qed.

Lemma cast_bool_true : cast ExBoolean (YStr TRUE_STR) = YBool true.   Proof. reflexivity. Qed.
Lemma cast_bool_false : cast ExBoolean (YStr FALSE_STR) = YBool false. Proof. reflexivity. Qed.
Lemma cast_integer z : cast ExInteger (YFloat (inject_Z z)) = YInt z.
Proof. simpl. rewrite qtrunc_inject. reflexivity. Qed.
Lemma cast_float q : cast ExFloat (YFloat q) = YFloat q. Proof. reflexivity. Qed.
Lemma cast_internal v : cast ExInternal v = v. Proof. reflexivity. Qed.
Lemma cast_integer_value z : pyv_eqb (cast ExInteger (YFloat (inject_Z z))) (YFloat (inject_Z z)) = true.
Proof. rewrite cast_integer. simpl. apply Qeq_bool_iff. reflexivity. Qed.

(* ---- name[index] *)
Lemma take_digits_app ds rest : forallb is_digit ds = true -> (match rest with c :: _ => is_digit c = false | [] => True end) ->
  take_digits (ds ++ rest) = (ds, rest).
Proof.
  induction ds as [|d ds IH]; simpl; intros Hd Hr.
  - destruct rest as [|c r]; simpl; auto. rewrite Hr. reflexivity.
  - apply andb_prop in Hd. destruct Hd as [H1 H2]. rewrite H1, IH by auto. reflexivity.
Qed.

Lemma parse_md_indexed base ds : ds <> [] -> forallb is_digit ds = true ->
  forallb (fun c => negb (N.eqb c 40 || N.eqb c 41)) base = true ->
  parse_md (base ++ 91%N :: ds ++ [93%N]) = Some (base, digits_value ds).
Proof.
  intros Hne Hd Hb. unfold parse_md. rewrite rev_app_distr. cbn [rev]. rewrite rev_app_distr. cbn [rev app].
  rewrite <- !app_assoc. cbn [app]. rewrite N.eqb_refl.
  assert (Hrd : forallb is_digit (rev ds) = true).
  { rewrite forallb_forall in *. intros x Hx. apply Hd. apply in_rev. auto. }
  rewrite (take_digits_app (rev ds) (91%N :: rev base) Hrd eq_refl).
  destruct (rev ds) as [|c r] eqn:E.
  - exfalso. apply Hne. apply (f_equal (@rev N)) in E. rewrite rev_involutive in E. exact E.
  - assert (Hrb : forallb (fun c0 => negb (N.eqb c0 40 || N.eqb c0 41)) (rev base) = true).
    { rewrite forallb_forall in *. intros x Hx. apply Hb. apply in_rev. auto. }
    rewrite N.eqb_refl, Hrb. cbn [andb]. rewrite <- E, !rev_involutive. reflexivity.
Qed.

(* a name that does not end in a closing bracket is a plain (scalar) name *)
Lemma parse_md_plain s : (match rev s with c :: _ => c <> 93%N | [] => True end) -> parse_md s = None.
Proof.
  unfold parse_md. destruct (rev s) as [|c r]; auto. intros H. destruct (N.eqb_spec c 93); [contradiction|reflexivity].
Qed.

(* ---- indexed values are presented in index order: stable sort by index *)
Definition idx_le (a b : N * pyv) : Prop := (fst a <= fst b)%N.
Lemma insert_idx_sorted x l : Sorted idx_le l -> Sorted idx_le (insert_idx x l).
Proof.
  induction l as [|h t IH]; simpl; intros Hs; [constructor; auto|].
  destruct (N.ltb_spec (fst x) (fst h)).
  - constructor; auto. constructor. unfold idx_le. lia.
  - inversion Hs as [|? ? Hs' Hhd]; subst. constructor; auto.
    destruct t as [|h2 t2]; simpl; [constructor; unfold idx_le; lia|].
    destruct (N.ltb_spec (fst x) (fst h2)); constructor; unfold idx_le; try lia. inversion Hhd; auto.
Qed.
Lemma insert_idx_perm x l : Permutation (x :: l) (insert_idx x l).
Proof.
  induction l as [|h t IH]; simpl; auto. destruct (N.ltb (fst x) (fst h)); auto.
  eapply perm_trans; [apply perm_swap|]. constructor. auto.
Qed.
Lemma sort_idx_spec l : Sorted idx_le (sort_idx l) /\ Permutation l (sort_idx l).
Proof.
  unfold sort_idx. assert (G : forall l acc, Sorted idx_le acc ->
    Sorted idx_le (fold_left (fun a x => insert_idx x a) l acc) /\ Permutation (acc ++ l) (fold_left (fun a x => insert_idx x a) l acc)).
  { induction l0 as [|x r IH]; simpl; intros acc Hs.
    - rewrite app_nil_r. split; auto.
    - destruct (IH (insert_idx x acc) (insert_idx_sorted x acc Hs)) as [I1 I2]. split; auto.
      eapply perm_trans; [|exact I2].
      eapply perm_trans; [apply Permutation_sym, Permutation_middle|].
      change (x :: acc ++ r) with ((x :: acc) ++ r). apply Permutation_app_tail. apply insert_idx_perm. }
  destruct (G l [] (Sorted_nil _)) as [G1 G2]. split; auto.
Qed.

(* ---- the BFS over the (conditional) space: nothing invented, nothing silently truncated *)
Lemma alookup_remove {A} n (l : list (str * A)) v : alookup n l = Some v -> Permutation l ((n, v) :: aremove n l).
Proof.
  induction l as [|[k w] r IH]; simpl; [discriminate|]. destruct (str_eqb_spec k n).
  - intros [= <-]. subst. apply Permutation_refl.
  - intros H. eapply perm_trans; [apply perm_skip, IH, H|]. apply perm_swap.
Qed.

Lemma to_external_inv : forall fuel queue rem vals ext,
  exists consumed rem',
    Permutation rem (consumed ++ rem') /\
    map fst (to_external fuel queue rem vals ext) = map fst ext ++ map fst consumed /\
    (forall n v, In (n, v) (to_external fuel queue rem vals ext) ->
       In (n, v) ext \/ exists v0 e, In (n, v0) consumed /\ v = cast e v0).
Proof.
  induction fuel as [|fuel IH]; intros queue rem vals ext.
  - exists [], rem. simpl. rewrite app_nil_r. repeat split; auto.
  - cbn [to_external]. destruct queue as [|[parent pc] rest].
    + exists [], rem. simpl. rewrite app_nil_r. repeat split; auto.
    + destruct rem as [|r0 rem0] eqn:Erem.
      * exists [], []. simpl. rewrite app_nil_r. repeat split; auto.
      * rewrite <- Erem. set (queue' := rest ++ map (fun c => (Some (xt_name pc), c)) (xt_children pc)).
        destruct (alookup (xt_name pc) rem) as [v|] eqn:El; [|apply IH].
        match goal with |- context [if ?b then _ else _] => destruct b end; [|apply IH].
        destruct (IH queue' (aremove (xt_name pc) rem) (vals ++ [(xt_name pc, v)]) (ext ++ [(xt_name pc, cast (xt_ext pc) v)]))
          as (consumed & rem' & P1 & P2 & P3).
        exists ((xt_name pc, v) :: consumed), rem'. split; [|split].
        -- eapply perm_trans; [apply alookup_remove; eauto|]. simpl. apply perm_skip. exact P1.
        -- rewrite P2, map_app. simpl. rewrite <- app_assoc. reflexivity.
        -- intros n w Hin. destruct (P3 n w Hin) as [Hi|(v0 & e & Hc & He)].
           ++ apply in_app_or in Hi. destruct Hi as [Hi|[[= <- <-]|[]]]; auto.
              right. exists v, (xt_ext pc). split; [left; reflexivity|reflexivity].
           ++ right. exists v0, e. split; [right; exact Hc|exact He].
Qed.

(* when the length check of _pytrial_parameters passes, the presented names are exactly the trial's parameter names and
   every presented value is a cast of the value the trial carries for that name *)
Lemma presented_exactly_trial_params roots params :
  let ext := to_external 1000 (map (fun t => (None, t)) roots) params [] [] in
  length ext = length params ->
  Permutation (map fst ext) (map fst params) /\
  (forall n v, In (n, v) ext -> exists v0 e, In (n, v0) params /\ v = cast e v0).
Proof.
  intros ext Hlen. subst ext.
  destruct (to_external_inv 1000 (map (fun t => (None, t)) roots) params [] []) as (consumed & rem' & P1 & P2 & P3).
  change (map fst (@nil (str * pyv)) ++ map fst consumed) with (map fst consumed) in P2.
  assert (Hl : length consumed = length params).
  { rewrite <- Hlen. rewrite <- (map_length fst), <- (map_length fst (to_external _ _ _ _ _)). rewrite P2. reflexivity. }
  assert (rem' = []).
  { apply Permutation_length in P1. rewrite app_length in P1. destruct rem'; auto. simpl in P1. lia. }
  subst rem'. rewrite app_nil_r in P1. split.
  - rewrite P2. apply Permutation_map, Permutation_sym. exact P1.
  - intros n v Hin. destruct (P3 n v Hin) as [[]|(v0 & e & Hc & He)]. exists v0, e. split; auto.
    eapply Permutation_in; [apply Permutation_sym; exact P1|exact Hc].
Qed.

(* the FULL grouping claim: a plain parameter keeps its value. Refuted when x and x[0] coexist *)
Definition collide_params : list (str * pyv) := [([120%N], YFloat (9 # 10)); ([120; 91; 48; 93]%N, YFloat (1 # 10))].
Lemma collision_loses_scalar :
  alookup [120%N] (group collide_params) = Some (PList [YFloat (1 # 10)]).
Proof. vm_compute. reflexivity. Qed.

(* ---- only ACTIVE parameters are presented.  Declarative activity of a node of the conditional forest for the
   parameters tr a trial carries: a root whose name the trial carries; or a child of an active node p such that the
   value the trial carries for p is one of the child's matching parent values, and the trial carries the child's name. *)
Inductive Act (roots : list xtree) (tr : list (str * pyv)) : xtree -> Prop :=
| act_root r : In r roots -> alookup (xt_name r) tr <> None -> Act roots tr r
| act_child p c pv : Act roots tr p -> In c (xt_children p) -> alookup (xt_name p) tr = Some pv ->
    existsb (pyv_eqb pv) (xt_matching c) = true -> alookup (xt_name c) tr <> None -> Act roots tr c.

Lemma alookup_aremove_other {A} n m (l : list (str * A)) : n <> m -> alookup n (aremove m l) = alookup n l.
Proof.
  intros Hne. induction l as [|[k w] r IH]; simpl; [reflexivity|]. destruct (str_eqb_spec k m).
  - subst k. destruct (str_eqb_spec m n); [congruence|reflexivity].
  - simpl. rewrite IH. reflexivity.
Qed.
Lemma alookup_notin {A} n (l : list (str * A)) : ~ In n (map fst l) -> alookup n l = None.
Proof.
  induction l as [|[k w] r IH]; simpl; intros H; [reflexivity|]. destruct (str_eqb_spec k n); [exfalso; apply H; left; assumption|].
  apply IH. intros Hin. apply H. right. exact Hin.
Qed.
Lemma aremove_names {A} m (l : list (str * A)) x : In x (map fst (aremove m l)) -> In x (map fst l).
Proof.
  induction l as [|[k w] r IH]; simpl; [tauto|]. destruct (str_eqb k m); simpl; [tauto|]. intros [H|H]; [left; exact H|right; apply IH; exact H].
Qed.
Lemma aremove_nodup {A} m (l : list (str * A)) : NoDup (map fst l) -> NoDup (map fst (aremove m l)).
Proof.
  induction l as [|[k w] r IH]; simpl; intros H; [constructor|]. inversion H; subst. destruct (str_eqb k m); [assumption|].
  simpl. constructor; [intros Hin; apply H2; eapply aremove_names; eauto|apply IH; assumption].
Qed.
Lemma alookup_aremove_sub {A} n m (l : list (str * A)) v : NoDup (map fst l) -> alookup n (aremove m l) = Some v -> alookup n l = Some v.
Proof.
  intros Hnd H. destruct (str_eqb_spec n m) as [->|Hne]; [|rewrite alookup_aremove_other in H by exact Hne; exact H].
  exfalso. clear -Hnd H. induction l as [|[k w] r IH]; simpl in *; [discriminate|]. inversion Hnd; subst.
  destruct (str_eqb_spec k m).
  - subst k. rewrite (alookup_notin m r H2) in H. discriminate.
  - simpl in H. destruct (str_eqb_spec k m); [contradiction|]. apply IH; assumption.
Qed.
Lemma alookup_app_last {A} n (l : list (str * A)) k w v : alookup n (l ++ [(k, w)]) = Some v ->
  alookup n l = Some v \/ (k = n /\ w = v).
Proof.
  induction l as [|[k0 w0] r IH]; simpl.
  - destruct (str_eqb_spec k n); [intros [= <-]; right; auto|discriminate].
  - destruct (str_eqb k0 n); [intros H; left; exact H|exact IH].
Qed.

Definition presented_ok (roots : list xtree) (tr : list (str * pyv)) (nx : str * pyv) : Prop :=
  exists node v, Act roots tr node /\ xt_name node = fst nx /\ alookup (fst nx) tr = Some v /\ snd nx = cast (xt_ext node) v.

Lemma to_external_active roots tr : forall fuel queue rem vals ext,
  (forall parent pc, In (parent, pc) queue ->
     (parent = None /\ In pc roots) \/ (exists p, parent = Some (xt_name p) /\ Act roots tr p /\ In pc (xt_children p))) ->
  NoDup (map fst rem) -> (forall n v, alookup n rem = Some v -> alookup n tr = Some v) ->
  (forall n v, alookup n vals = Some v -> alookup n tr = Some v) ->
  (forall nx, In nx ext -> presented_ok roots tr nx) ->
  forall nx, In nx (to_external fuel queue rem vals ext) -> presented_ok roots tr nx.
Proof.
  induction fuel as [|fuel IH]; intros queue rem vals ext Q Hnd R V E; [exact E|].
  cbn [to_external]. destruct queue as [|[parent pc] rest]; [exact E|]. destruct rem as [|r0 rem0] eqn:Erem; [exact E|]. rewrite <- Erem in *.
  assert (Qrest : forall parent0 pc0, In (parent0, pc0) rest ->
     (parent0 = None /\ In pc0 roots) \/ (exists p, parent0 = Some (xt_name p) /\ Act roots tr p /\ In pc0 (xt_children p))).
  { intros a b H. apply Q. right. exact H. }
  destruct (alookup (xt_name pc) rem) as [v|] eqn:El; [|apply IH; assumption].
  pose proof (R _ _ El) as Htr.
  match goal with |- context [if ?b then _ else _] => destruct b eqn:Eact end; [|apply IH; assumption].
  assert (Hact : Act roots tr pc).
  { destruct (Q parent pc (or_introl eq_refl)) as [[-> Hroot]|[p [-> [Hp Hc]]]].
    - apply act_root; [exact Hroot|rewrite Htr; discriminate].
    - destruct (alookup (xt_name p) vals) as [pv|] eqn:Epv; [|discriminate].
      apply (act_child roots tr p pc pv Hp Hc (V _ _ Epv) Eact). rewrite Htr. discriminate. }
  apply IH.
  - intros a b Hin. apply in_app_or in Hin. destruct Hin as [Hin|Hin]; [apply Qrest; exact Hin|].
    apply in_map_iff in Hin. destruct Hin as [c [[= <- <-] Hc]]. right. exists pc. auto.
  - apply aremove_nodup. exact Hnd.
  - intros n w H. apply R. eapply alookup_aremove_sub; eauto.
  - intros n w H. apply alookup_app_last in H. destruct H as [H|[<- <-]]; [apply V; exact H|exact Htr].
  - intros nx Hin. apply in_app_or in Hin. destruct Hin as [Hin|[<-|[]]]; [apply E; exact Hin|].
    exists pc, v. cbn [fst snd]. auto.
Qed.

(* every presented parameter is an ACTIVE parameter of the space, with the trial's value cast to the declared type *)
Theorem presented_are_active roots tr : NoDup (map fst tr) ->
  forall nx, In nx (to_external 1000 (map (fun t => (None, t)) roots) tr [] []) -> presented_ok roots tr nx.
Proof.
  intros Hnd. apply to_external_active; auto.
  - intros parent pc Hin. apply in_map_iff in Hin. destruct Hin as [t [[= <- <-] Ht]]. left. auto.
  - intros n v H. simpl in H. discriminate.
  - intros nx [].
Qed.

(* ... and a trial that carries a parameter which is not the name of an active parameter is reported as an error *)
Theorem inactive_is_error roots tr n : NoDup (map fst tr) -> In n (map fst tr) ->
  (forall node, Act roots tr node -> xt_name node <> n) -> trial_parameters roots tr = Err EValue.
Proof.
  intros Hnd Hin Hno. unfold trial_parameters.
  destruct (Nat.eqb (length (to_external 1000 (map (fun t => (None, t)) roots) tr [] [])) (length tr)) eqn:El; [|reflexivity].
  exfalso. apply Nat.eqb_eq in El.
  destruct (presented_exactly_trial_params roots tr El) as [Hperm _].
  assert (Hn : In n (map fst (to_external 1000 (map (fun t => (None, t)) roots) tr [] [])))
    by (eapply Permutation_in; [apply Permutation_sym; exact Hperm|exact Hin]).
  apply in_map_iff in Hn. destruct Hn as [[n' x] [Hfst Hx]]. cbn [fst] in Hfst. subst n'.
  destruct (presented_are_active roots tr Hnd (n, x) Hx) as [node [v [Ha [Hname _]]]]. cbn [fst] in Hname.
  exact (Hno node Ha Hname).
Qed.

(* the shape that used to slip through (same name in two subtrees): model=linear, opt=adam, lr=0.1 where lr exists only
   under model=dnn / opt=adam -> error (kernel-evaluated) *)
Example inactive_grandchild_is_error :
  let model := [109%N] in let opt := [111%N] in let lr := [108%N] in
  let dnn := YStr [100%N] in let linear := YStr [105%N] in let adam := YStr [97%N] in
  let roots := [XNode model ExInternal [] [XNode opt ExInternal [dnn] [XNode lr ExInternal [adam] []]; XNode opt ExInternal [linear] []]] in
  trial_parameters roots [(model, linear); (opt, adam); (lr, YFloat (1 # 10))] = Err EValue /\
  match trial_parameters roots [(model, dnn); (opt, adam); (lr, YFloat (1 # 10))] with Ok l => length l = 3%nat | Err _ => False end.
Proof. vm_compute. split; reflexivity. Qed.
