From Coq Require Import Lqa.
From VZ Require Import Base.Prelude Model.Wire Gen.EnumMaps Model.WireConv.

(* ---- enum tables (finite: by cases on the generated tables) *)
Lemma scale_roundtrip s n : scale_to_proto s = Some n -> n <> 0%N /\ scale_from_proto n = Some s.
Proof. destruct s; simpl; intros [= <-]; split; try discriminate; reflexivity. Qed.
Lemma ext_roundtrip e : exists n, ext_to_proto e = Some n /\
  (if N.eqb n 0 then ExInternal else match ext_from_proto n with Some e' => e' | None => ExInternal end) = e.
Proof. destruct e; eexists; split; reflexivity. Qed.
Lemma sstate_roundtrip s : sstate_from_proto (sstate_to_proto s) = Some s.
Proof. destruct s; reflexivity. Qed.
Lemma tstatus_roundtrip s inf : s <> PyUnknown -> tstatus_from_proto (tstatus_to_proto s inf) = s.
Proof. destruct s, inf; simpl; intros H; try reflexivity; exfalso; apply H; reflexivity. Qed.
Lemma tstatus_infeasible_roundtrip inf :
  N.eqb (tstatus_to_proto PyTCompleted inf) TS_INFEASIBLE = inf.
Proof. destruct inf; reflexivity. Qed.

(* ---- an induction principle for the nested tree *)
Section PconfInd.
  Variable P : pconf -> Prop.
  Hypothesis H : forall name ty bounds feas sc dflt ex children,
    Forall (fun vc => P (snd vc)) children -> P (PConf name ty bounds feas sc dflt ex children).
  Fixpoint pconf_ind' (p : pconf) : P p :=
    match p with
    | PConf name ty bounds feas sc dflt ex children =>
      H name ty bounds feas sc dflt ex children
        ((fix go (l : list (list pval * pconf)) : Forall (fun vc => P (snd vc)) l :=
            match l with
            | [] => Forall_nil _
            | vc :: r => Forall_cons vc (pconf_ind' (snd vc)) (go r)
            end) children)
    end.
End PconfInd.

(* ---- well-formed ParameterConfigs: what ParameterConfig.factory produces (sorted feasible values, integral integer
        bounds, values of the right kind) with a transmittable scale type *)
Definition wf_scale (sc : option scale) : Prop := sc <> Some ScUniformDiscrete.
Definition wf_vals (ty : ptype) (vals : list pval) : Prop :=
  match ty with
  | TDiscrete => exists l, vals = map VNum l /\ qsort l = l
  | TCategorical => exists l, vals = map VStr l /\ ssort l = l
  | TInteger => exists l, vals = map (fun z => VNum (q_of_Z z)) l /\ zsort l = l
  | TDouble => False
  end.
Definition wf_node (ty : ptype) (bounds : option (Q * Q)) (feas : list pval) (dflt : option pval) : Prop :=
  match ty with
  | TDouble => (exists lo hi, bounds = Some (lo, hi)) /\ feas = [] /\ (dflt = None \/ exists q, dflt = Some (VNum q))
  | TInteger => (exists lo hi, bounds = Some (q_of_Z lo, q_of_Z hi)) /\ feas = [] /\
                (dflt = None \/ exists z, dflt = Some (VNum (q_of_Z z)))
  | TDiscrete => bounds = None /\ (exists l, feas = map VNum l /\ qsort l = l) /\ (dflt = None \/ exists q, dflt = Some (VNum q))
  | TCategorical => bounds = None /\ (exists l, feas = map VStr l /\ ssort l = l) /\ (dflt = None \/ exists s, dflt = Some (VStr s))
  end.
Fixpoint wf (p : pconf) : Prop :=
  match p with
  | PConf name ty bounds feas sc dflt ex children =>
    wf_node ty bounds feas dflt /\ wf_scale sc /\
    (fix go (l : list (list pval * pconf)) : Prop :=
       match l with [] => True | (vals, c) :: r => wf_vals ty vals /\ wf c /\ go r end) children
  end.

Lemma nums_map_VNum l : nums (map VNum l) = l.
Proof. induction l; simpl; congruence. Qed.
Lemma strs_map_VStr l : strs (map VStr l) = l.
Proof. induction l; simpl; congruence. Qed.
Lemma nums_map_Z l : map Z_of_q (nums (map (fun z => VNum (q_of_Z z)) l)) = l.
Proof. induction l; simpl; congruence. Qed.
Lemma qsort_idem l : qsort l = l -> qsort (qsort l) = l.
Proof. intros H. rewrite H. exact H. Qed.

Lemma of_to_cond ty sp vals bounds feas dflt : to_vspec ty bounds feas dflt = Some sp -> wf_vals ty vals ->
  of_cond (to_cond sp vals) = vals.
Proof.
  intros Hsp Hv. destruct ty; simpl in Hv; try contradiction.
  - destruct bounds as [[lo hi]|]; simpl in Hsp; [|discriminate]. injection Hsp as <-.
    destruct Hv as (l & -> & Hs). simpl. rewrite nums_map_Z, Hs. reflexivity.
  - simpl in Hsp. destruct bounds as [[? ?]|]; injection Hsp as <-; destruct Hv as (l & -> & Hs); simpl; rewrite nums_map_VNum, Hs; reflexivity.
  - simpl in Hsp. destruct bounds as [[? ?]|]; injection Hsp as <-; destruct Hv as (l & -> & Hs); simpl; rewrite strs_map_VStr, Hs; reflexivity.
Qed.

(* from_proto (to_proto p) = p *)
Lemma roundtrip : forall p q, wf p -> to_proto p = Some q -> from_proto q = p.
Proof.
  induction p as [name ty bounds feas sc dflt ex children IH] using pconf_ind'. intros q Hwf Hto.
  cbn [to_proto] in Hto. destruct (to_vspec ty bounds feas dflt) as [sp|] eqn:Esp; [|discriminate].
  match type of Hto with context [match ?g children with _ => _ end] => destruct (g children) as [cs|] eqn:Ecs; [|discriminate] end.
  injection Hto as <-. cbn [wf] in Hwf. destruct Hwf as (Hnode & Hsc & Hch).
  (* children *)
  assert (Hcs : map (fun cp => (of_cond (fst cp), from_proto (snd cp))) cs = children).
  { clear -IH Ecs Hch Esp. revert cs Ecs. induction children as [|[vals c] r IHr]; intros cs Ecs.
    - injection Ecs as <-. reflexivity.
    - destruct (to_proto c) as [cp|] eqn:Ec; [|discriminate].
      match type of Ecs with context [match ?g r with _ => _ end] => destruct (g r) as [rest|] eqn:Er; [|discriminate] end.
      injection Ecs as <-. destruct Hch as (Hv & Hwc & Hr). inversion IH as [|? ? IHc IHrest]; subst.
      cbn [map fst snd]. rewrite (of_to_cond ty sp vals bounds feas dflt Esp Hv).
      rewrite (IHc cp Hwc Ec). f_equal. apply IHr; auto. }
  cbn [from_proto]. rewrite Hcs.
  (* scale and external type *)
  assert (Hscale : (if N.eqb (match sc with Some s => match scale_to_proto s with Some n => n | None => 0%N end | None => 0%N end) 0
                    then None else scale_from_proto (match sc with Some s => match scale_to_proto s with Some n => n | None => 0%N end | None => 0%N end)) = sc).
  { destruct sc as [s|]; [|reflexivity]. destruct s; try reflexivity. exfalso. apply Hsc. reflexivity. }
  rewrite Hscale.
  destruct (ext_roundtrip ex) as (n & En & Eex). rewrite En, Eex.
  (* the value spec *)
  destruct ty; simpl in Hnode, Esp.
  - destruct Hnode as ((lo & hi & ->) & -> & Hd). injection Esp as <-.
    destruct Hd as [->|(q & ->)]; reflexivity.
  - destruct Hnode as ((lo & hi & ->) & -> & Hd). injection Esp as <-.
    destruct Hd as [->|(z & ->)]; reflexivity.
  - destruct Hnode as (-> & (l & -> & Hs) & Hd). injection Esp as <-. rewrite nums_map_VNum, Hs, Hs.
    destruct Hd as [->|(q & ->)]; reflexivity.
  - destruct Hnode as (-> & (l & -> & Hs) & Hd). injection Esp as <-. rewrite strs_map_VStr.
    destruct Hd as [->|(s & ->)]; simpl; rewrite Hs; reflexivity.
Qed.

(* the refuted part: UNIFORM_DISCRETE is not transmitted *)
Definition ud_example : pconf := PConf [112%N] TDiscrete None [VNum 1; VNum 2] (Some ScUniformDiscrete) None ExInternal [].
Lemma uniform_discrete_lost : exists q, to_proto ud_example = Some q /\ from_proto q <> ud_example.
Proof. eexists. split; [reflexivity|]. discriminate. Qed.

(* ---- Measurement: metrics, steps exact; elapsed seconds within one nanosecond (exact arithmetic) *)
Lemma meas_roundtrip m : (0 <= pm_elapsed m)%Q ->
  let m' := meas_from_proto (meas_to_proto m) in
  pm_metrics m' = pm_metrics m /\ pm_steps m' = pm_steps m /\
  (pm_elapsed m' <= pm_elapsed m)%Q /\ (pm_elapsed m < pm_elapsed m' + 1 / 1000000000)%Q.
Proof.
  intros Hpos. unfold meas_from_proto, meas_to_proto.
  cbn [pm_metrics pm_steps pm_elapsed rm_metrics rm_seconds rm_nanos rm_steps].
  split; [reflexivity|]. split; [reflexivity|].
  set (e := pm_elapsed m). set (s := Qfloor e).
  set (f := ((e - inject_Z s) * 1000000000)%Q). set (n := Qfloor f).
  pose proof (Qfloor_le f) as H1. pose proof (Qlt_floor f) as H2. fold n in H1, H2.
  rewrite inject_Z_plus in H2. change (inject_Z 1) with 1%Q in H2.
  unfold f in H1, H2. split.
  - assert (inject_Z n / 1000000000 <= e - inject_Z s)%Q; [|lra].
    apply Qle_shift_div_r; [reflexivity|]. lra.
  - assert (e - inject_Z s < (inject_Z n + 1) / 1000000000)%Q.
    { apply Qlt_shift_div_l; [reflexivity|]. lra. }
    assert ((inject_Z n + 1) / 1000000000 == inject_Z n / 1000000000 + 1 / 1000000000)%Q by field. lra.
Qed.
