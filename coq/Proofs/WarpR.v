(* LogWarperComponent over the reals: the formulas the translator extracts (Gen/Warpers.v), for offset > 1 (default 1.5)
   and labels_min < labels_max. *)
From Coq Require Import Reals Lra.
From VZ Require Import Gen.Warpers.
Open Scope R_scope.

Section LogWarp.
  Variables o mn mx : R.
  Hypothesis Ho : 1 < o.
  Hypothesis Hrange : mn < mx.

  Let arg (y : R) : R := 1 + (mx - y) / (mx - mn) * (o - 1).

  Lemma ln_o_pos : 0 < ln o.
  Proof. rewrite <- ln_1. apply ln_increasing; lra. Qed.

  Lemma arg_pos y : y <= mx -> 1 <= arg y.
  Proof.
    intros Hy. unfold arg. assert (0 <= (mx - y) / (mx - mn)).
    { apply Rmult_le_pos; [lra|left; apply Rinv_0_lt_compat; lra]. }
    assert (0 <= (mx - y) / (mx - mn) * (o - 1)) by (apply Rmult_le_pos; lra). lra.
  Qed.

  Lemma arg_decreasing y1 y2 : y1 < y2 -> arg y2 < arg y1.
  Proof.
    intros H. unfold arg. assert ((mx - y2) / (mx - mn) < (mx - y1) / (mx - mn)).
    { unfold Rdiv. apply Rmult_lt_compat_r; [apply Rinv_0_lt_compat; lra|lra]. }
    assert ((mx - y2) / (mx - mn) * (o - 1) < (mx - y1) / (mx - mn) * (o - 1)) by (apply Rmult_lt_compat_r; lra). lra.
  Qed.

  Theorem log_warp_monotone y1 y2 : y1 < y2 -> y2 <= mx -> log_warp_fn o mn mx y1 < log_warp_fn o mn mx y2.
  Proof.
    intros H12 H2. unfold log_warp_fn. fold (arg y1). fold (arg y2).
    pose proof ln_o_pos as Hl. pose proof (arg_pos y2 H2) as Ha2. pose proof (arg_decreasing y1 y2 H12) as Hd.
    assert (ln (arg y2) < ln (arg y1)) by (apply ln_increasing; lra).
    assert (ln (arg y2) / ln o < ln (arg y1) / ln o).
    { unfold Rdiv. apply Rmult_lt_compat_r; [apply Rinv_0_lt_compat; exact Hl|assumption]. }
    lra.
  Qed.

  Theorem log_warp_endpoints : log_warp_fn o mn mx mx = 1 / 2 /\ log_warp_fn o mn mx mn = - (1 / 2).
  Proof.
    pose proof ln_o_pos as Hl. unfold log_warp_fn. split.
    - replace (1 + (mx - mx) / (mx - mn) * (o - 1)) with 1 by (field; lra). rewrite ln_1. field. lra.
    - replace (1 + (mx - mn) / (mx - mn) * (o - 1)) with o by (field; lra). field. lra.
  Qed.

  Theorem log_warp_range y : mn <= y <= mx -> - (1 / 2) <= log_warp_fn o mn mx y <= 1 / 2.
  Proof.
    intros [H1 H2]. destruct log_warp_endpoints as [E1 E2]. split.
    - destruct H1 as [H1| <-]; [|lra]. pose proof (log_warp_monotone mn y H1 H2). lra.
    - destruct H2 as [H2| ->]; [|lra]. pose proof (log_warp_monotone y mx H2 (Rle_refl mx)). lra.
  Qed.

  Theorem log_unwarp_warp y : y <= mx -> log_unwarp_fn o mn mx (log_warp_fn o mn mx y) = y.
  Proof.
    intros Hy. unfold log_unwarp_fn, log_warp_fn. fold (arg y).
    pose proof ln_o_pos as Hl. pose proof (arg_pos y Hy) as Ha.
    replace (ln o * (1 / 2 - (1 / 2 - ln (arg y) / ln o))) with (ln (arg y)) by (field; lra).
    rewrite exp_ln by lra. unfold arg. field. lra.
  Qed.
End LogWarp.

(* every finite label equal (labels_min = labels_max): the source guards the division (Gen/Warpers.v: log_warp_constant_fn is
   Some formula; None would mean 0 / 0) and each label gets the value of the best one, 1/2; un-warping gives the label back *)
Lemma log_warp_constant_is_half : forall o mx : R,
  match log_warp_constant_fn with Some f => f o mx mx = 1 / 2 | None => False end.
Proof.
  intros o mx. simpl.
  replace ((mx - mx) / 1) with 0 by (unfold Rdiv; rewrite Rinv_1; ring).
  rewrite Rmult_0_l, Rplus_0_r, ln_1. unfold Rdiv. rewrite Rmult_0_l. ring.
Qed.

Lemma log_unwarp_constant : forall o mx : R, log_unwarp_fn o mx mx (1 / 2) = mx.
Proof.
  intros o mx. unfold log_unwarp_fn.
  replace (1 / 2 - 1 / 2) with 0 by lra. rewrite Rmult_0_r, exp_0.
  replace (mx - mx) with 0 by ring. unfold Rdiv. rewrite Rmult_0_r, Rmult_0_l. ring.
Qed.
