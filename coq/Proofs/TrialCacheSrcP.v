(* get_newly_completed_trials as regenerated from the source is the function `newly` of the model *)
From VZ Require Import Base.Prelude Model.TrialCache Model.TrialCacheIR Gen.TrialCacheSrc.
Import ListNotations.

Lemma src_newly_is_newly : forall inc maxid trials, newly_of src_newly inc maxid trials = newly inc maxid trials.
Proof.
  intros inc maxid trials. unfold newly_of, newly, src_newly. cbn [nd_guard nd_ids nd_status nd_inc seval has_status].
  replace (maxid + 1 - 1) with maxid by lia. reflexivity.
Qed.
Lemma src_reload_keeps : forall inc, reload src_dump src_load inc = inc.
Proof. reflexivity. Qed.
Lemma src_load_failures_are_harmless : src_load = LoadSetOfList true true.
Proof. reflexivity. Qed.
