From VZ Require Import Base.Prelude Model.External Model.ExternalIR Gen.ExternalSrc.
Import ListNotations.

Theorem src_to_external_is_to_external : forall fuel queue remaining values external,
  to_external_of src_loop_body fuel queue remaining values external = to_external fuel queue remaining values external.
Proof.
  induction fuel as [|fuel IH]; intros queue remaining values external; [reflexivity|].
  cbn [to_external_of to_external].
  destruct queue as [|[parent pc] rest]; [reflexivity|].
  destruct remaining as [|r0 rem]; [reflexivity|].
  set (remaining := r0 :: rem) in *.
  unfold src_loop_body. cbn [exec_body exec1 b_remaining b_values b_queue b_external b_parent_value b_ext_value].
  destruct (alookup (xt_name pc) remaining) as [v|] eqn:Ev; [|apply IH].
  destruct parent as [pn|].
  - cbn [b_values]. destruct (alookup pn values) as [pv|] eqn:Ep; [|apply IH].
    cbn [exec_body exec1 b_remaining b_values b_queue b_external b_parent_value b_ext_value].
    rewrite Ep. cbn [b_parent_value].
    destruct (existsb (pyv_eqb pv) (xt_matching pc)); [|apply IH].
    cbn [exec_body exec1 b_remaining b_values b_queue b_external b_parent_value b_ext_value]. rewrite Ev.
    cbn [exec_body exec1 b_remaining b_values b_queue b_external b_parent_value b_ext_value]. rewrite Ev.
    cbn [exec_body exec1 b_remaining b_values b_queue b_external b_parent_value b_ext_value]. apply IH.
  - cbn [exec_body exec1 b_remaining b_values b_queue b_external b_parent_value b_ext_value]. rewrite Ev.
    cbn [exec_body exec1 b_remaining b_values b_queue b_external b_parent_value b_ext_value]. rewrite Ev.
    cbn [exec_body exec1 b_remaining b_values b_queue b_external b_parent_value b_ext_value]. apply IH.
Qed.
