(* The program denoted by the block sequence regenerated from CheckTrialEarlyStoppingState is the model's h_check_early_stop *)
From VZ Require Import Base.Prelude Base.XFloat Model.Metadata Model.Service Model.HandlerIR Model.EarlyStopIR Gen.EarlyStopSrc Proofs.HandlerIRP.
Import ListNotations.

Ltac dres r := destruct r as [r|?]; [destruct r|]; cbn beta iota; try (apply peq_throw).
Ltac callstep := apply peq_call_eq; [reflexivity|]; let r := fresh "r" in intros r.

Lemma peq_decisions : forall k ds p q, peq p q -> peq (decisions_loop k ds p) (decisions_loop k ds q).
Proof.
  intros k ds. induction ds as [|[i b] rest IH]; intros p q H; cbn [decisions_loop]; auto.
  callstep. destruct r as [a|e]; [destruct a|destruct e]; cbn beta iota; try (apply peq_throw).
  - callstep. destruct r as [?|?]; cbn [expect_unit]; [apply IH; assumption|apply peq_throw].
  - callstep. destruct r as [?|?]; cbn [expect_unit]; [|apply peq_throw].
    callstep. destruct r as [?|?]; cbn [expect_unit]; [apply IH; assumption|apply peq_throw].
  - callstep. destruct r as [?|?]; cbn [expect_unit]; [|apply peq_throw].
    callstep. destruct r as [?|?]; cbn [expect_unit]; [apply IH; assumption|apply peq_throw].
Qed.

Ltac compute_tail :=
  unfold es_compute;
  callstep; match goal with r : res rsp |- _ => destruct r as [?|?]; [|apply peq_throw] end;
  callstep; match goal with r : res rsp |- _ => destruct r as [?|?]; [|apply peq_throw] end;
  apply peq_pythia; intros po; destruct po as [| ds smd tmd | x]; [apply peq_throw| |];
  [ apply peq_acq; callstep;
    match goal with r : res rsp |- _ => destruct r as [?|ee]; [|destruct ee]; cbn beta iota; try (apply peq_throw) end;
    [ apply peq_rel; apply peq_decisions; callstep;
      match goal with r : res rsp |- _ => dres r end;
      match goal with |- peq (if ?b then _ else _) _ => destruct b end;
      [ callstep; match goal with r : res rsp |- _ => destruct r as [?|?]; cbn [expect_unit]; [apply peq_rel; apply peq_ret|apply peq_throw] end
      | apply peq_rel; apply peq_ret ]
    | apply peq_rel; callstep; match goal with r : res rsp |- _ => destruct r as [?|?]; cbn [expect_unit]; apply peq_throw end
    | apply peq_rel; callstep; match goal with r : res rsp |- _ => destruct r as [?|?]; cbn [expect_unit]; apply peq_throw end ]
  | callstep; match goal with r : res rsp |- _ => destruct r as [?|?]; cbn [expect_unit]; apply peq_throw end ].

Theorem src_early_stop_is_h_check_early_stop : forall recycle k id,
  peq (early_stop_of src_CheckTrialEarlyStoppingState recycle k id) (h_check_early_stop recycle k id).
Proof.
  intros recycle k id. unfold early_stop_of, src_CheckTrialEarlyStoppingState.
  lazy beta iota zeta delta [vinterp v_found v_es v_ds v_smd v_tmd v_t venv0].
  unfold h_check_early_stop, guard_study, with_trial.
  callstep. dres r.
  destruct (immutable s); [apply peq_throw|]. apply peq_acq.
  callstep. dres r.
  destruct (negb (trial_mutable t)); [apply peq_throw|]. apply peq_rel. apply peq_acq.
  callstep. destruct r as [a|e]; [destruct a|destruct e]; cbn beta iota; try (apply peq_throw).
  - (* an operation exists *)
    match goal with |- peq (if ?b then _ else _) _ => destruct b end; [apply peq_rel; apply peq_ret|].
    callstep. destruct r as [?|?]; cbn [expect_unit]; [|apply peq_throw].
    Timeout 60 compute_tail.
  - callstep. destruct r as [?|?]; cbn [expect_unit]; [|apply peq_throw].
    Timeout 60 compute_tail.
  - callstep. destruct r as [?|?]; cbn [expect_unit]; [|apply peq_throw].
    Timeout 60 compute_tail.
Qed.
