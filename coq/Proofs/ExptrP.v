(* Proofs about Model/Exptr.v *)
From VZ Require Import Base.Prelude Model.Exptr.
From Coq Require Import Lqa.

Definition swap_table : list (goal * goal) := [(GMax, GMin); (GMin, GMax)].

Lemma swap_involutive g : apply_goal_table swap_table (apply_goal_table swap_table g) = g.
Proof. destruct g; reflexivity. Qed.
Lemma swap_changes g : apply_goal_table swap_table g <> g.
Proof. destruct g; discriminate. Qed.

Lemma is_objective_flip t b e n : is_objective (flip t b e) n = is_objective e n.
Proof.
  unfold is_objective, flip. simpl. induction (ex_goals e) as [|p r IH]; simpl; [reflexivity|]. rewrite IH. reflexivity.
Qed.

Lemma Qopp_opp_eq (q : Q) : Qopp (Qopp q) = q.
Proof. destruct q as [a b]. unfold Qopp. simpl. rewrite Z.opp_involutive. reflexivity. Qed.

(* flipping twice gives back every value and every goal *)
Theorem flip_involution b e x :
  ex_eval (flip swap_table b (flip swap_table b e)) x = ex_eval e x /\
  ex_goals (flip swap_table b (flip swap_table b e)) = ex_goals e.
Proof.
  split.
  - unfold flip at 1. cbn [ex_eval]. unfold flip at 2. cbn [ex_eval]. destruct (ex_eval e x) as [m|]; [|reflexivity]. simpl. f_equal.
    unfold flip_metrics. rewrite map_map. rewrite <- (map_id m) at 2. apply map_ext. intros [n v]. cbn [fst snd].
    rewrite is_objective_flip.
    destruct (negb b || is_objective e n) eqn:E; cbn [fst snd].
    + rewrite E. rewrite Qopp_opp_eq. reflexivity.
    + rewrite E. reflexivity.
  - unfold flip. cbn [ex_goals]. rewrite map_map. rewrite <- (map_id (ex_goals e)) at 2. apply map_ext. intros [n g]. cbn [fst snd].
    rewrite swap_involutive. reflexivity.
Qed.

(* one flip negates every objective value and changes every goal *)
Theorem flip_negates e x m n v : ex_eval e x = Some m -> In (n, v) m -> is_objective e n = true ->
  exists m', ex_eval (flip swap_table true e) x = Some m' /\ In (n, Qopp v) m'.
Proof.
  intros Hm Hin Ho. unfold flip. cbn [ex_eval]. rewrite Hm. simpl. eexists. split; [reflexivity|].
  unfold flip_metrics. apply in_map_iff. exists (n, v). split; [|exact Hin]. cbn [fst snd]. rewrite Ho. reflexivity.
Qed.
Theorem flip_goals e n g : In (n, g) (ex_goals e) -> exists g', In (n, g') (ex_goals (flip swap_table true e)) /\ g' <> g.
Proof.
  intros H. exists (apply_goal_table swap_table g). split; [|apply swap_changes].
  unfold flip. cbn [ex_goals]. apply in_map_iff. exists (n, g). auto.
Qed.

(* shifting evaluates the base objective at the shifted point; wrappers that only move the point commute with the
   wrappers that only change the values *)
Theorem shift_evaluates_base s e x : ex_eval (shift s e) x = ex_eval e (psub x s).
Proof. reflexivity. Qed.
Theorem permute_evaluates_base ps e x : ex_eval (permute ps e) x = ex_eval e (pmap ps x).
Proof. reflexivity. Qed.
Theorem flip_shift_commute t b s e x : ex_eval (flip t b (shift s e)) x = ex_eval (shift s (flip t b e)) x.
Proof. reflexivity. Qed.
Theorem flip_permute_commute t b ps e x : ex_eval (flip t b (permute ps e)) x = ex_eval (permute ps (flip t b e)) x.
Proof. reflexivity. Qed.

(* a permutation dictionary that passes perm_is_bijection maps feasible values onto feasible values, injectively *)
Lemma qmemb_In x l : qmemb x l = true <-> exists y, In y l /\ Qeq x y.
Proof.
  unfold qmemb. rewrite existsb_exists. split; intros [y [H1 H2]]; exists y; split; auto.
  - apply Qeq_bool_eq. exact H2.
  - apply Qeq_eq_bool. exact H2.
Qed.
Theorem perm_maps_into_keys p v : perm_is_bijection p = true -> qmemb v (perm_keys p) = true ->
  qmemb (apply_perm p v) (perm_keys p) = true.
Proof.
  unfold perm_is_bijection. intros H Hv. apply andb_true_iff in H. destruct H as [_ H]. rewrite forallb_forall in H.
  unfold apply_perm. destruct (find (fun kv => Qeq_bool (fst kv) v) p) as [kv|] eqn:E; [|exact Hv].
  apply find_some in E. destruct E as [E1 _]. apply H. unfold perm_vals. apply in_map. exact E1.
Qed.

(* normalising keeps the order of objective values *)
Theorem normalize_keeps_order mean std a b : 0 < std -> (a < b <-> normalize_value mean std a < normalize_value mean std b).
Proof.
  intros Hs. unfold normalize_value. split; intros H.
  - unfold Qdiv. apply Qmult_lt_compat_r; [apply Qinv_lt_0_compat; exact Hs|lra].
  - destruct (Qlt_le_dec a b) as [Hl|Hl]; [exact Hl|]. exfalso.
    assert ((b - mean) / std <= (a - mean) / std).
    { unfold Qdiv. apply Qmult_le_compat_r; [lra|]. apply Qlt_le_weak. apply Qinv_lt_0_compat. exact Hs. }
    lra.
Qed.

