(* Real-valued properties of the scaling formulas the translator extracts from scaler_from_spec (Gen/Scalers.v). *)
From Coq Require Import Reals Lra.
From VZ Require Import Gen.Scalers.
Open Scope R_scope.

Lemma ln_le_weak x y : 0 < x -> x <= y -> ln x <= ln y.
Proof. intros Hx [H| ->]; [left; apply ln_increasing; auto|right; reflexivity]. Qed.

Section Log.
  Variables lo hi : R.
  Hypothesis Hlo : 0 < lo.
  Hypothesis Hlt : lo < hi.
  (* as computed by the code: low, high = log(low), log(high); denom = high - low *)
  Let low := ln lo.
  Let high := ln hi.
  Let denom := high - low.

  Lemma denom_pos : 0 < denom.
  Proof. unfold denom, high, low. assert (ln lo < ln hi) by (apply ln_increasing; auto). lra. Qed.

  Lemma log_range x : lo <= x <= hi -> 0 <= log_scale_fn denom low x <= 1.
  Proof.
    intros [H1 H2]. unfold log_scale_fn. pose proof denom_pos as Hd.
    assert (ln lo <= ln x) by (apply ln_le_weak; auto).
    assert (ln x <= ln hi) by (apply ln_le_weak; lra).
    split.
    - apply Rmult_le_pos; [unfold low; lra|left; apply Rinv_0_lt_compat; auto].
    - apply (Rmult_le_reg_r denom); auto. unfold Rdiv. rewrite Rmult_assoc, Rinv_l by lra. unfold denom, high, low in *. lra.
  Qed.
  Lemma log_endpoints : log_scale_fn denom low lo = 0 /\ log_scale_fn denom low hi = 1.
  Proof.
    pose proof denom_pos. unfold log_scale_fn. split.
    - unfold low. replace (ln lo - ln lo) with 0 by lra. unfold Rdiv. apply Rmult_0_l.
    - fold high. fold denom. unfold Rdiv. apply Rinv_r. lra.
  Qed.
  Lemma log_monotone x y : 0 < x -> x < y -> log_scale_fn denom low x < log_scale_fn denom low y.
  Proof.
    intros Hx Hxy. unfold log_scale_fn. pose proof denom_pos. assert (ln x < ln y) by (apply ln_increasing; auto).
    unfold Rdiv. apply Rmult_lt_compat_r; [apply Rinv_0_lt_compat; auto|lra].
  Qed.
  Lemma log_roundtrip x : 0 < x -> log_unscale_fn denom low (log_scale_fn denom low x) = x.
  Proof.
    intros Hx. unfold log_unscale_fn, log_scale_fn. pose proof denom_pos.
    replace ((ln x - low) / denom * denom + low) with (ln x) by (field; lra). apply exp_ln. auto.
  Qed.

  (* reverse log: raw_sum = low + high (of the raw bounds) *)
  Let raw_sum := lo + hi.
  Lemma rlog_range x : lo <= x <= hi -> 0 <= rlog_scale_fn denom low raw_sum x <= 1.
  Proof.
    intros [H1 H2]. unfold rlog_scale_fn. pose proof denom_pos as Hd.
    assert (Hr : lo <= raw_sum - x <= hi) by (unfold raw_sum; lra).
    assert (ln lo <= ln (raw_sum - x)) by (apply ln_le_weak; lra).
    assert (ln (raw_sum - x) <= ln hi) by (apply ln_le_weak; lra).
    assert (0 <= (ln (raw_sum - x) - low) / denom <= 1).
    { split.
      - apply Rmult_le_pos; [unfold low; lra|left; apply Rinv_0_lt_compat; auto].
      - apply (Rmult_le_reg_r denom); auto. unfold Rdiv. rewrite Rmult_assoc, Rinv_l by lra. unfold denom, high, low in *. lra. }
    lra.
  Qed.
  Lemma rlog_endpoints : rlog_scale_fn denom low raw_sum lo = 0 /\ rlog_scale_fn denom low raw_sum hi = 1.
  Proof.
    pose proof denom_pos. unfold rlog_scale_fn, raw_sum. split.
    - replace (lo + hi - lo) with hi by lra. fold high. fold denom. unfold Rdiv. rewrite Rinv_r by lra. lra.
    - replace (lo + hi - hi) with lo by lra. unfold low. replace (ln lo - ln lo) with 0 by lra. unfold Rdiv. rewrite Rmult_0_l. lra.
  Qed.
  Lemma rlog_monotone x y : lo <= x -> x < y -> y <= hi ->
    rlog_scale_fn denom low raw_sum x < rlog_scale_fn denom low raw_sum y.
  Proof.
    intros Hx Hxy Hy. unfold rlog_scale_fn. pose proof denom_pos.
    assert (ln (raw_sum - y) < ln (raw_sum - x)) by (apply ln_increasing; unfold raw_sum; lra).
    assert ((ln (raw_sum - y) - low) / denom < (ln (raw_sum - x) - low) / denom).
    { unfold Rdiv. apply Rmult_lt_compat_r; [apply Rinv_0_lt_compat; auto|lra]. }
    lra.
  Qed.
  Lemma rlog_roundtrip x : lo <= x <= hi -> rlog_unscale_fn denom high raw_sum (rlog_scale_fn denom low raw_sum x) = x.
  Proof.
    intros [H1 H2]. unfold rlog_unscale_fn, rlog_scale_fn. pose proof denom_pos.
    replace (high - denom * (1 - (ln (raw_sum - x) - low) / denom)) with (ln (raw_sum - x)) by (unfold denom; field; unfold denom in *; lra).
    rewrite exp_ln by (unfold raw_sum; lra). lra.
  Qed.

  (* linear *)
  Lemma lin_range x : lo <= x <= hi -> 0 <= lin_scale_fn hi lo x <= 1.
  Proof.
    intros [H1 H2]. unfold lin_scale_fn. split.
    - apply Rmult_le_pos; [lra|left; apply Rinv_0_lt_compat; lra].
    - apply (Rmult_le_reg_r (hi - lo)); [lra|]. unfold Rdiv. rewrite Rmult_assoc, Rinv_l by lra. lra.
  Qed.
  Lemma lin_monotone x y : x < y -> lin_scale_fn hi lo x < lin_scale_fn hi lo y.
  Proof. intros H. unfold lin_scale_fn, Rdiv. apply Rmult_lt_compat_r; [apply Rinv_0_lt_compat; lra|lra]. Qed.
  Lemma lin_roundtrip x : lin_unscale_fn hi lo (lin_scale_fn hi lo x) = x.
  Proof. unfold lin_unscale_fn, lin_scale_fn. field. lra. Qed.
End Log.
