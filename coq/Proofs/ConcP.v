From VZ Require Import Base.Prelude Model.Metadata Model.Service Model.ServiceEq Model.Conc Proofs.ServiceP.

(* ---------------------------------------------------------------- unique trial ids under every interleaving *)
Definition ids_ok (s : state) : Prop := forall k n, In (k, n) (nodes s) -> NoDup (map t_id (n_trials n)).

Lemma get_node_in k l n : get_node k l = Some n -> exists k', In (k', n) l.
Proof.
  induction l as [|[k' n'] r IH]; simpl; [discriminate|]. destruct (skey_eqb k' k).
  - intros [= <-]. exists k'. auto.
  - intros H. destruct (IH H) as (k2 & Hin). exists k2. auto.
Qed.

Lemma in_set_node k n l x : In x (set_node k n l) -> In x l \/ snd x = n.
Proof.
  induction l as [|[k' n'] r IH]; simpl; [tauto|]. destruct (skey_eqb k' k); simpl.
  - intros [<-|H]; auto.
  - intros [<-|H]; auto. destruct (IH H); auto.
Qed.

Lemma in_del_node k l x : In x (del_node k l) -> In x l.
Proof.
  induction l as [|[k' n'] r IH]; simpl; [tauto|]. destruct (skey_eqb k' k); simpl; auto. intros [<-|H]; auto.
Qed.

Lemma get_trial_none_notin id l : get_trial id l = None -> ~ In id (map t_id l).
Proof.
  induction l as [|x r IH]; simpl; [tauto|]. destruct (N.eqb_spec (t_id x) id); [discriminate|].
  intros H [E|Hin]; [congruence|]. apply IH; auto.
Qed.

Lemma ids_set_trial t l : map t_id (set_trial t l) = map t_id l.
Proof.
  induction l as [|x r IH]; simpl; auto. destruct (N.eqb_spec (t_id x) (t_id t)); simpl; [congruence|]. rewrite IH. reflexivity.
Qed.

Lemma nodup_del_trial id l : NoDup (map t_id l) -> NoDup (map t_id (del_trial id l)).
Proof.
  induction l as [|x r IH]; simpl; auto. intros H. inversion H; subst. destruct (N.eqb (t_id x) id); auto.
  simpl. constructor; auto. intros Hin. apply H2. clear -Hin.
  induction r as [|y r IH]; simpl in *; auto. destruct (N.eqb (t_id y) id); simpl in *; auto. destruct Hin; auto.
Qed.

Lemma nodup_snoc (l : list N) x : NoDup l -> ~ In x l -> NoDup (l ++ [x]).
Proof.
  induction l as [|y r IH]; simpl; intros H Hn; [constructor; auto; constructor|].
  inversion H; subst. constructor.
  - rewrite in_app_iff. simpl. intros [Hi|[E|[]]]; auto.
  - apply IH; auto.
Qed.

Lemma ids_ok_upd s k n n0 : ids_ok s -> get_node k (nodes s) = Some n0 ->
  NoDup (map t_id (n_trials n)) -> ids_ok (upd s k n).
Proof.
  intros Hok Hg Hn k' n' Hin. unfold upd in Hin. cbn [nodes] in Hin.
  destruct (in_set_node _ _ _ _ Hin) as [H|H]; [eapply Hok; eauto|]. cbn [snd] in H. subst. exact Hn.
Qed.

Lemma exec_ids_ok c s : ids_ok s -> ids_ok (fst (exec c s)).
Proof.
  intros Hok.
  assert (Hnode : forall k n0, get_node k (nodes s) = Some n0 -> NoDup (map t_id (n_trials n0))).
  { intros k n0 Hg. destruct (get_node_in _ _ _ Hg) as (k' & Hin). eapply Hok; eauto. }
  destruct c; cbn [exec];
    try (destruct (get_node k (nodes s)) as [n0|] eqn:Hg; cbn [fst]; auto).
  - (* create study *) intros k' n' Hin. cbn [nodes] in Hin. apply in_app_iff in Hin. destruct Hin as [H|[[= <- <-]|[]]]; [eapply Hok; eauto|].
    simpl. constructor.
  - eapply ids_ok_upd; eauto. cbn [n_trials]. eauto.
  - intros k' n' Hin. cbn [nodes] in Hin. apply in_del_node in Hin. eapply Hok; eauto.
  - destruct (mem_N o (owners s)); cbn [fst]; auto.
  - destruct (get_trial (t_id t) (n_trials n0)) eqn:Ht; cbn [fst]; auto.
    eapply ids_ok_upd; eauto. cbn [n_trials]. rewrite map_app. simpl. apply nodup_snoc; eauto. apply get_trial_none_notin; auto.
  - destruct (get_trial id (n_trials n0)); cbn [fst]; auto.
  - destruct (get_trial (t_id t) (n_trials n0)); cbn [fst]; auto.
    eapply ids_ok_upd; eauto. cbn [n_trials]. rewrite ids_set_trial. eauto.
  - destruct (get_trial id (n_trials n0)); cbn [fst]; auto.
    eapply ids_ok_upd; eauto. cbn [n_trials]. apply nodup_del_trial. eauto.
  - destruct (existsb _ _); cbn [fst]; auto. eapply ids_ok_upd; eauto. cbn [n_trials]. eauto.
  - destruct (find _ _); cbn [fst]; auto.
  - destruct (existsb _ _); cbn [fst]; auto. eapply ids_ok_upd; eauto. cbn [n_trials]. eauto.
  - destruct (filter _ _); cbn [fst]; auto.
  - destruct (filter _ _); cbn [fst]; auto.
  - destruct (existsb _ _); cbn [fst]; auto. eapply ids_ok_upd; eauto. cbn [n_trials]. eauto.
  - destruct (find _ _); cbn [fst]; auto.
  - destruct (existsb _ _); cbn [fst]; auto. eapply ids_ok_upd; eauto. cbn [n_trials]. eauto.
  - destruct (forallb _ _); cbn [fst]; auto. eapply ids_ok_upd; eauto. cbn [n_trials].
    rewrite map_map. erewrite map_ext; [eapply Hnode; eauto|]. intros t. destruct (mem_N _ _); reflexivity.
Qed.

Lemma cstep_ids_ok c tid c' : ids_ok (c_state c) -> cstep c tid = Some c' -> ids_ok (c_state c').
Proof.
  unfold cstep. intros Hok. destruct (nth_error (c_threads c) tid) as [t|]; [|discriminate].
  destruct (enabled (c_threads c) t); [|discriminate]. destruct (th_prog t); try discriminate.
  - destruct (exec c0 (c_state c)) as [s' r] eqn:E. intros [= <-]. cbn [c_state].
    pose proof (exec_ids_ok c0 (c_state c) Hok) as H. rewrite E in H. exact H.
  - intros [= <-]. exact Hok.
Qed.

Lemma run_sched_ids_ok fuel : forall sched c, ids_ok (c_state c) -> ids_ok (c_state (run_sched fuel sched c)).
Proof.
  induction fuel as [|fuel IH]; intros sched c Hok; simpl; auto.
  destruct (match sched with
            | [] => first_enabled c
            | tid :: _ => match cstep c tid with Some _ => Some tid | None => first_enabled c end
            end) as [tid|]; auto.
  destruct (cstep c tid) as [c'|] eqn:E; auto. apply IH. eapply cstep_ids_ok; eauto.
Qed.

Lemma init_ids_ok : ids_ok init_state.
Proof. intros k n []. Qed.

(* sequential prefixes keep it too: run is a sequence of exec *)
Lemma run_ids_ok p : forall s po tr, ids_ok s -> ids_ok (fst (fst (run p s po tr))).
Proof.
  induction p as [r|e|c k IH|l k IH|l k IH|q k IH]; intros s po tr Hok; cbn [run]; auto.
  destruct (exec c s) as [s' r] eqn:E. apply IH. pose proof (exec_ids_ok c s Hok) as H. rewrite E in H. exact H.
Qed.
Lemma run_all_ids_ok ops : forall s, ids_ok s -> ids_ok (run_all ops s).
Proof.
  induction ops as [|ro ops IH]; intros s Hok; simpl; auto. apply IH. unfold step_state, step.
  pose proof (run_ids_ok (handler (fst ro)) s (snd ro) [] Hok) as H.
  destruct (run (handler (fst ro)) s (snd ro) []) as [[s' o] tr]. exact H.
Qed.
