From VZ Require Import Base.Prelude Model.Metadata.
From Coq Require Import Sorting.Sorted Sorting.Permutation.

Lemma str_ltb_irrefl a : str_ltb a a = false.
Proof. induction a as [|x a IH]; simpl; auto. rewrite N.ltb_irrefl, N.eqb_refl. exact IH. Qed.

Lemma str_ltb_asym a : forall b, str_ltb a b = true -> str_ltb b a = false.
Proof.
  induction a as [|x a IH]; intros [|y b]; simpl; try congruence.
  destruct (N.ltb_spec x y) as [Hlt|Hge].
  - intros _. destruct (N.ltb_spec y x); [lia|]. destruct (N.eqb_spec y x); [lia|reflexivity].
  - destruct (N.eqb_spec x y) as [->|Hne]; [|discriminate].
    rewrite N.ltb_irrefl, N.eqb_refl. apply IH.
Qed.

Lemma str_ltb_trans a : forall b c, str_ltb a b = true -> str_ltb b c = true -> str_ltb a c = true.
Proof.
  induction a as [|x a IH]; intros [|y b] [|z c]; simpl; try congruence.
  destruct (N.ltb_spec x y) as [Hxy|Hxy]; destruct (N.ltb_spec y z) as [Hyz|Hyz];
    destruct (N.ltb_spec x z) as [Hxz|Hxz]; auto; try lia;
    destruct (N.eqb_spec x y); destruct (N.eqb_spec y z); destruct (N.eqb_spec x z); try congruence; try lia.
  apply IH.
Qed.

Lemma str_ltb_total a : forall b, str_ltb a b = false -> str_ltb b a = false -> a = b.
Proof.
  induction a as [|x a IH]; intros [|y b]; simpl; try congruence.
  destruct (N.ltb_spec x y); [discriminate|]. destruct (N.ltb_spec y x); [discriminate|].
  assert (x = y) by lia. subst. rewrite N.eqb_refl. intros H1 H2. f_equal. apply IH; auto.
Qed.

Lemma key_eqb_eq a b : key_eqb a b = true <-> a = b.
Proof.
  destruct a, b; unfold key_eqb; simpl. rewrite andb_true_iff, !str_eqb_eq. split; [intros []|intros [=]]; subst; auto.
Qed.
Lemma key_eqb_refl a : key_eqb a a = true. Proof. apply key_eqb_eq; auto. Qed.
Lemma key_eqb_sym a b : key_eqb a b = key_eqb b a.
Proof.
  destruct (key_eqb a b) eqn:E1, (key_eqb b a) eqn:E2; auto.
  - apply key_eqb_eq in E1; subst. rewrite key_eqb_refl in E2; discriminate.
  - apply key_eqb_eq in E2; subst. rewrite key_eqb_refl in E1; discriminate.
Qed.
Lemma key_eqb_neq a b : key_eqb a b = false <-> a <> b.
Proof. rewrite <- key_eqb_eq. destruct (key_eqb a b); split; congruence. Qed.

Lemma key_ltb_asym a b : key_ltb a b = true -> key_ltb b a = false.
Proof.
  destruct a as [n1 k1], b as [n2 k2]; unfold key_ltb; simpl.
  rewrite orb_true_iff, andb_true_iff, orb_false_iff, andb_false_iff.
  intros [H|[He H]].
  - split; [apply str_ltb_asym; auto|]. left.
    destruct (str_eqb_spec n2 n1); auto. subst. rewrite str_ltb_irrefl in H. discriminate.
  - apply str_eqb_eq in He; subst. split; [apply str_ltb_irrefl|]. right. apply str_ltb_asym; auto.
Qed.

Lemma key_leb_total a b : key_leb a b = false -> key_leb b a = true.
Proof. unfold key_leb. rewrite negb_false_iff, negb_true_iff. apply key_ltb_asym. Qed.

Lemma key_ltb_trans a b c : key_ltb a b = true -> key_ltb b c = true -> key_ltb a c = true.
Proof.
  destruct a as [n1 k1], b as [n2 k2], c as [n3 k3]; unfold key_ltb; simpl.
  rewrite !orb_true_iff, !andb_true_iff, !str_eqb_eq.
  intros [H1|[-> H1]] [H2|[-> H2]]; eauto using str_ltb_trans.
Qed.

Lemma key_leb_antisym a b : key_leb a b = true -> key_leb b a = true -> a = b.
Proof.
  destruct a as [n1 k1], b as [n2 k2]; unfold key_leb, key_ltb; simpl.
  rewrite !negb_true_iff, !orb_false_iff, !andb_false_iff.
  intros [H1 H2] [H3 H4]. assert (n1 = n2) by (apply str_ltb_total; auto). subst.
  rewrite str_eqb_refl in *. f_equal. apply str_ltb_total; destruct H2, H4; congruence.
Qed.

(* ---- dict semantics *)
Lemma lookup_upsert k v d k0 :
  lookup k0 (upsert k v d) = if key_eqb k k0 then Some v else lookup k0 d.
Proof.
  induction d as [|[k' v'] t IH]; simpl.
  - reflexivity.
  - destruct (key_eqb k' k) eqn:E; simpl.
    + apply key_eqb_eq in E; subst. destruct (key_eqb k k0); reflexivity.
    + destruct (key_eqb k' k0) eqn:E0.
      * apply key_eqb_eq in E0; subst. rewrite key_eqb_sym, E. reflexivity.
      * exact IH.
Qed.

Lemma keys_upsert k v d : NoDup (map fst d) -> NoDup (map fst (upsert k v d)) /\
  (forall x, In x (map fst (upsert k v d)) <-> x = k \/ In x (map fst d)).
Proof.
  induction d as [|[k' v'] t IH]; simpl; intros Hnd.
  - split; [constructor; auto; constructor|]. intros x; simpl; intuition congruence.
  - inversion Hnd as [|? ? Hni Hnd']; subst. destruct (key_eqb k' k) eqn:E; simpl.
    + apply key_eqb_eq in E; subst. split; [constructor; auto|]. intros x; simpl; intuition congruence.
    + destruct (IH Hnd') as [I1 I2]. apply key_eqb_neq in E. split.
      * constructor; auto. rewrite I2. intros [H|H]; congruence.
      * intros x. simpl. rewrite I2. intuition congruence.
Qed.

Lemma dict_of_nodup kvs : forall d, NoDup (map fst d) -> NoDup (map fst (dict_of kvs d)).
Proof.
  induction kvs as [|e t IH]; simpl; intros d H; auto. apply IH. apply keys_upsert; auto.
Qed.

Lemma lookup_dict_of kvs : forall d k0,
  lookup k0 (dict_of kvs d) = match lookup_last k0 kvs with Some v => Some v | None => lookup k0 d end.
Proof.
  induction kvs as [|[k v] t IH]; simpl; intros d k0; auto.
  rewrite IH. destruct (lookup_last k0 t); auto. rewrite lookup_upsert. destruct (key_eqb k k0); reflexivity.
Qed.

(* ---- sorting *)
Lemma insert_perm e l : Permutation (e :: l) (insert e l).
Proof.
  induction l as [|h t IH]; simpl; auto. destruct (key_leb (fst e) (fst h)); auto.
  eapply perm_trans; [apply perm_swap|]. constructor. exact IH.
Qed.
Lemma isort_perm l : Permutation l (isort l).
Proof. induction l as [|h t IH]; simpl; auto. eapply perm_trans; [|apply insert_perm]. constructor; auto. Qed.

Definition kle (a b : kv) : Prop := key_leb (fst a) (fst b) = true.

Lemma insert_sorted e l : Sorted kle l -> Sorted kle (insert e l).
Proof.
  induction l as [|h t IH]; simpl; intros Hs.
  - constructor; auto.
  - destruct (key_leb (fst e) (fst h)) eqn:E.
    + constructor; auto.
    + inversion Hs as [|? ? Hs' Hhd]; subst. constructor; auto.
      destruct t as [|h2 t2]; simpl.
      * constructor. apply key_leb_total; auto.
      * destruct (key_leb (fst e) (fst h2)); constructor; [apply key_leb_total; auto|inversion Hhd; auto].
Qed.
Lemma isort_sorted l : Sorted kle (isort l).
Proof. induction l; simpl; [constructor|apply insert_sorted; auto]. Qed.

Lemma lookup_in k v l : NoDup (map fst l) -> (lookup k l = Some v <-> In (k, v) l).
Proof.
  induction l as [|[k' v'] t IH]; simpl; intros Hnd.
  - split; [discriminate|tauto].
  - inversion Hnd as [|? ? Hni Hnd']; subst. destruct (key_eqb k' k) eqn:E.
    + apply key_eqb_eq in E; subst. split.
      * intros [=]; subst; auto.
      * intros [[=]|Hin]; subst; auto. exfalso; apply Hni. apply (in_map fst) in Hin. exact Hin.
    + rewrite IH by auto. apply key_eqb_neq in E. split; auto. intros [[=]|H]; auto. congruence.
Qed.

Lemma lookup_perm k l l' : NoDup (map fst l) -> Permutation l l' -> lookup k l = lookup k l'.
Proof.
  intros Hnd Hp.
  assert (Hnd' : NoDup (map fst l')) by (eapply Permutation_NoDup; [apply Permutation_map; eauto|auto]).
  destruct (lookup k l) as [v|] eqn:E.
  - symmetry. apply lookup_in; auto. eapply Permutation_in; eauto. apply lookup_in; auto.
  - destruct (lookup k l') as [v|] eqn:E'; auto.
    apply lookup_in in E'; auto. apply Permutation_sym in Hp. eapply Permutation_in in E'; eauto.
    apply lookup_in in E'; auto. congruence.
Qed.

Lemma merge_nodup old new : NoDup (map fst (merge old new)).
Proof.
  unfold merge. eapply Permutation_NoDup; [apply Permutation_map, isort_perm|].
  apply dict_of_nodup, dict_of_nodup. constructor.
Qed.

Lemma merge_sorted old new : Sorted kle (merge old new).
Proof. apply isort_sorted. Qed.

Lemma merge_lookup old new k :
  lookup k (merge old new) =
  match lookup_last k new with Some v => Some v | None => lookup_last k old end.
Proof.
  unfold merge. rewrite <- (lookup_perm k (dict_of new (dict_of old [])) _ (dict_of_nodup new _ (dict_of_nodup old [] (NoDup_nil _))) (isort_perm _)).
  rewrite !lookup_dict_of. simpl. destruct (lookup_last k new); auto. destruct (lookup_last k old); auto.
Qed.

(* stored metadata is always the result of a merge, hence key-unique: lookup_last = lookup there *)
Lemma lookup_last_nodup k l : NoDup (map fst l) -> lookup_last k l = lookup k l.
Proof.
  induction l as [|[k' v'] t IH]; simpl; intros Hnd; auto.
  inversion Hnd as [|? ? Hni Hnd']; subst. rewrite IH by auto.
  destruct (key_eqb k' k) eqn:E; [|destruct (lookup k t); auto].
  apply key_eqb_eq in E; subst. destruct (lookup k t) eqn:El; auto.
  exfalso. apply Hni. apply lookup_in in El; auto. apply (in_map fst) in El. exact El.
Qed.

(* last-writer-wins over any sequence of updates *)
Fixpoint last_write (k : mdkey) (ups : list (list kv)) : option mdval :=
  match ups with
  | [] => None
  | u :: t => match last_write k t with Some v => Some v | None => lookup_last k u end
  end.

Lemma lww_fold ups : forall init k, NoDup (map fst init) ->
  lookup k (fold_left merge ups init) =
  match last_write k ups with Some v => Some v | None => lookup k init end.
Proof.
  induction ups as [|u t IH]; simpl; intros init k Hnd; auto.
  rewrite IH by apply merge_nodup. destruct (last_write k t); auto.
  rewrite merge_lookup. destruct (lookup_last k u); auto. apply lookup_last_nodup; auto.
Qed.

Lemma lww_fold_inv ups : forall init, NoDup (map fst init) -> Sorted kle init ->
  NoDup (map fst (fold_left merge ups init)) /\ Sorted kle (fold_left merge ups init).
Proof.
  induction ups as [|u t IH]; simpl; intros init Hnd Hs; auto.
  apply IH; [apply merge_nodup|apply merge_sorted].
Qed.

(* sorted + key-unique lists with the same lookups are equal: the stored form is canonical,
   so "reads back exactly the last written values" determines the whole stored list *)
Lemma merge_trial_lookup tid old ups k :
  lookup k (merge_trial tid old ups) =
  match lookup_last k (map snd (filter (fun u => N.eqb (fst u) tid) ups)) with
  | Some v => Some v | None => lookup_last k old end.
Proof. unfold merge_trial. apply merge_lookup. Qed.
