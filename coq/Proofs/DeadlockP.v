From VZ Require Import Base.Prelude Model.Metadata Model.Service Model.ServiceEq Model.Conc.

Definition is_top (l : lockid) : bool := match l with LOp _ => false | _ => true end.

(* lock discipline of a program started with the locks `held` (most recent first):
   an operation lock is taken only with nothing held; a study/owner lock with nothing or only an operation lock held;
   releases are LIFO; a program returns holding nothing (exceptions release everything: Python `with`) *)
Fixpoint wf (held : list lockid) (p : prog) : Prop :=
  match p with
  | Ret _ => held = []
  | Throw _ => True
  | Call _ k => forall r, wf held (k r)
  | Acquire l k =>
    (if is_top l then held = [] \/ exists k0, held = [LOp k0] else held = []) /\ wf (l :: held) k
  | Release l k => (exists rest, held = l :: rest) /\ wf (tl held) k
  | Pythia _ k => forall o, wf held (k o)
  end.

Ltac wf_step :=
  cbn [wf handler h_create_study h_get_study h_list_studies h_delete_study h_set_study_state h_create_trial h_suggest
       h_get_trial h_list_trials h_add_measurement h_complete_trial h_stop_trial h_delete_trial h_check_early_stop
       h_update_metadata h_list_optimal h_get_operation guard_study with_trial expect_unit finish_op es_compute is_top tl].
Ltac wf_unf := unfold handler, h_create_study, h_get_study, h_list_studies, h_delete_study, h_set_study_state, h_create_trial,
  h_suggest, h_get_trial, h_list_trials, h_add_measurement, h_complete_trial, h_stop_trial, h_delete_trial,
  h_check_early_stop, h_update_metadata, h_list_optimal, h_get_operation, guard_study, with_trial, expect_unit, finish_op,
  es_compute.
Ltac wf_go := repeat progress (try wf_unf; wf_step; intros;
  try match goal with
      | |- _ /\ _ => split
      | |- exists rest, ?l :: ?r = ?l :: rest => exists r; reflexivity
      | |- [] = [] \/ _ => left; reflexivity
      | |- _ \/ exists k0, [LOp ?k] = [LOp k0] => right; exists k; reflexivity
      | |- ?x = ?x => reflexivity
      | |- True => exact I
      | |- context [match ?x with _ => _ end] => destruct x
      | |- context [if ?b then _ else _] => destruct b
      end).

Lemma wf_assign_loop k c : forall pool need out cont held,
  (forall out', wf held (cont out')) -> wf held (assign_loop k c pool need out cont).
Proof.
  induction pool as [|t rest IH]; intros need out cont held H; destruct need; cbn [assign_loop]; auto.
  cbn [wf]. intros r. destruct r; cbn [expect_unit wf]; auto.
Qed.
Lemma wf_create_loop k c : forall sugs need out cont held,
  (forall l out', wf held (cont l out')) -> wf held (create_loop k c sugs need out cont).
Proof.
  induction sugs as [|p rest IH]; intros need out cont held H; destruct need; cbn [create_loop]; auto.
  cbn [wf]. intros r. destruct r as [[]|]; cbn [wf]; auto. intros r2. destruct r2; cbn [expect_unit wf]; auto.
Qed.
Lemma wf_remain_loop k : forall rem cont held, wf held cont -> wf held (remain_loop k rem cont).
Proof.
  induction rem as [|p rest IH]; intros cont held H; cbn [remain_loop]; auto.
  cbn [wf]. intros r. destruct r as [[]|]; cbn [wf]; auto. intros r2. destruct r2; cbn [expect_unit wf]; auto.
Qed.
Lemma wf_decisions_loop k : forall ds cont held, wf held cont -> wf held (decisions_loop k ds cont).
Proof.
  induction ds as [|[id b] rest IH]; intros cont held H; cbn [decisions_loop]; auto.
  cbn [wf]. intros r. destruct r as [[]|[]]; cbn [wf]; auto; intros r2; destruct r2; cbn [expect_unit wf]; auto;
    intros r3; destruct r3; cbn [expect_unit wf]; auto.
Qed.

Lemma wf_finish_op k o err out : wf [LOp k] (finish_op k o err out).
Proof. wf_go. Qed.

Lemma wf_handler r : wf [] (handler r).
Proof.
  destruct r; try (solve [wf_go]).
  - (* SuggestTrials *)
    wf_go;
    try (apply wf_assign_loop; intros; wf_go;
         try (apply wf_create_loop; intros; apply wf_remain_loop; wf_go)).
  - (* CheckEarlyStop *)
    wf_go; try (apply wf_decisions_loop; wf_go).
Qed.

(* ---------------------------------------------------------------- deadlock freedom for any number of threads *)
Definition held_ok (held : list lockid) : Prop :=
  held = [] \/ (exists k, held = [LOp k]) \/ (exists l, is_top l = true /\ held = [l]) \/
  (exists l k, is_top l = true /\ held = [l; LOp k]).

Definition parked (p : prog) : Prop := match p with Call _ _ | Acquire _ _ => True | _ => False end.

Definition thread_ok (t : thread) : Prop :=
  match th_result t with
  | Some _ => th_held t = []
  | None => held_ok (th_held t) /\ wf (th_held t) (th_prog t) /\ parked (th_prog t)
  end.
Definition cfg_ok (c : cfg) : Prop := Forall thread_ok (c_threads c).

Lemma lock_eqb_refl l : lock_eqb l l = true.
Proof. destruct l; simpl; try apply N.eqb_refl; unfold skey_eqb; rewrite !N.eqb_refl; reflexivity. Qed.
Lemma lock_eqb_top_op l k : is_top l = true -> lock_eqb (LOp k) l = false.
Proof. destruct l; simpl; auto; discriminate. Qed.

Lemma park_ok p : forall oracle held, held_ok held -> wf held p -> thread_ok (park p oracle held).
Proof.
  induction p as [r|e|c k IH|l k IH|l k IH|q k IH]; intros oracle held Hh Hw; cbn [park].
  - unfold thread_ok. reflexivity.
  - unfold thread_ok. reflexivity.
  - unfold thread_ok. cbn. auto.
  - unfold thread_ok. cbn. auto.
  - cbn [wf] in Hw. destruct Hw as [(rest & ->) Hw]. cbn [tl] in Hw. cbn [filter]. rewrite lock_eqb_refl. cbn [negb].
    assert (E : filter (fun x => negb (lock_eqb x l)) rest = rest /\ held_ok rest).
    { destruct Hh as [H|[(k0 & H)|[(l0 & Ht & H)|(l0 & k0 & Ht & H)]]]; try discriminate.
      - injection H as -> ->. split; [reflexivity|left; reflexivity].
      - injection H as -> ->. split; [reflexivity|left; reflexivity].
      - injection H as -> ->. cbn [filter]. rewrite (lock_eqb_top_op l0 k0 Ht). split; [reflexivity|right; left; eauto]. }
    destruct E as [E1 E2]. rewrite E1. apply IH; auto.
  - cbn [wf] in Hw. apply IH; auto.
Qed.

Lemma start_ok s rpcs : cfg_ok (start s rpcs).
Proof.
  unfold cfg_ok, start. cbn [c_threads]. induction rpcs as [|ro r IH]; simpl; constructor; auto.
  apply park_ok; [left; reflexivity|apply wf_handler].
Qed.

Lemma Forall_set_nth {A} (P : A -> Prop) x : forall n l, Forall P l -> P x -> Forall P (set_nth n x l).
Proof.
  induction n as [|n IH]; intros [|h t] Hl Hx; simpl; auto; inversion Hl; subst; constructor; auto.
Qed.

Lemma cstep_ok c tid c' : cfg_ok c -> cstep c tid = Some c' -> cfg_ok c'.
Proof.
  unfold cfg_ok, cstep. intros Hok. destruct (nth_error (c_threads c) tid) as [t|] eqn:En; [|discriminate].
  assert (Ht : thread_ok t) by (rewrite Forall_forall in Hok; apply Hok; eapply nth_error_In; eauto).
  destruct (enabled (c_threads c) t) eqn:Een; [|discriminate].
  unfold enabled in Een. unfold thread_ok in Ht. destruct (th_result t); [discriminate|].
  destruct Ht as (Hh & Hw & _). destruct (th_prog t) as [| |cl k|l k| |]; try discriminate.
  - destruct (exec cl (c_state c)) as [s' r]. intros [= <-]. cbn [c_threads].
    apply Forall_set_nth; [exact Hok|]. apply park_ok; [exact Hh|]. cbn [wf] in Hw. apply Hw.
  - intros [= <-]. cbn [c_threads]. apply Forall_set_nth; [exact Hok|]. cbn [wf] in Hw. destruct Hw as [Hside Hw].
    apply park_ok; [|exact Hw]. destruct (is_top l) eqn:El.
    + destruct Hside as [->|(k0 & ->)]; [right; right; left; eauto|right; right; right; eauto].
    + destruct l; try discriminate. rewrite Hside. right; left; eauto.
Qed.

Lemma run_sched_ok fuel : forall sched c, cfg_ok c -> cfg_ok (run_sched fuel sched c).
Proof.
  induction fuel as [|fuel IH]; intros sched c Hok; simpl; auto.
  destruct (match sched with
            | [] => first_enabled c
            | tid :: _ => match cstep c tid with Some _ => Some tid | None => first_enabled c end
            end) as [tid|]; auto.
  destruct (cstep c tid) as [c'|] eqn:E; auto. apply IH. eapply cstep_ok; eauto.
Qed.

Lemma first_enabled_none c : first_enabled c = None -> forall t, In t (c_threads c) -> enabled (c_threads c) t = false.
Proof.
  unfold first_enabled.
  assert (G : forall ths i,
    (fix go (i : nat) (l : list thread) : option nat :=
       match l with [] => None | t :: r => if enabled (c_threads c) t then Some i else go (S i) r end) i ths = None ->
    forall t, In t ths -> enabled (c_threads c) t = false).
  { induction ths as [|t r IH]; intros i H t0 Hin; [destruct Hin|].
    destruct (enabled (c_threads c) t) eqn:E; [discriminate|]. destruct Hin as [<-|Hin]; [exact E|]. eapply IH; eauto. }
  intros H. apply (G (c_threads c) 0 H).
Qed.

Definition holds_top (t : thread) : bool := existsb is_top (th_held t).

Lemma held_by_any_false ths l : (forall t, In t ths -> existsb (lock_eqb l) (th_held t) = false) -> held_by_any ths l = false.
Proof.
  unfold held_by_any. induction ths as [|t r IH]; intros H; simpl; auto.
  rewrite (H t (or_introl eq_refl)). simpl. apply IH. intros; apply H; right; auto.
Qed.

Lemma lock_eqb_is_top a b : lock_eqb a b = true -> is_top a = is_top b.
Proof. destruct a, b; simpl; auto; discriminate. Qed.

(* no reachable configuration is stuck: while some call is unfinished, some thread can take a step *)
Lemma progress c : cfg_ok c -> all_finished c = false -> first_enabled c <> None.
Proof.
  intros Hok Hnf Hnone. pose proof (first_enabled_none c Hnone) as Hdis.
  unfold cfg_ok in Hok. rewrite Forall_forall in Hok.
  (* every unfinished thread is parked at a Call or an Acquire; a disabled one is at an Acquire of a held lock *)
  assert (Hacq : forall t, In t (c_threads c) -> th_result t = None ->
                 exists l k, th_prog t = Acquire l k /\ held_by_any (c_threads c) l = true).
  { intros t Hin Hr. specialize (Hdis t Hin). specialize (Hok t Hin). unfold enabled in Hdis. unfold thread_ok in Hok.
    rewrite Hr in *. destruct Hok as (_ & _ & Hp). destruct (th_prog t); try contradiction; try discriminate.
    exists l, p. split; auto. apply negb_false_iff in Hdis. exact Hdis. }
  (* step 1: no unfinished thread holds a top lock *)
  assert (Hnotop : forall t, In t (c_threads c) -> holds_top t = false).
  { intros t Hin. destruct (th_result t) eqn:Hr.
    - specialize (Hok t Hin). unfold thread_ok in Hok. rewrite Hr in Hok. unfold holds_top. rewrite Hok. reflexivity.
    - destruct (Hacq t Hin Hr) as (l & k & Hp & _). specialize (Hok t Hin). unfold thread_ok in Hok. rewrite Hr in Hok.
      destruct Hok as (_ & Hw & _). rewrite Hp in Hw. cbn [wf] in Hw. destruct Hw as [Hside _]. unfold holds_top.
      destruct (is_top l); [destruct Hside as [->|(k0 & ->)]; reflexivity|rewrite Hside; reflexivity]. }
  (* hence every top lock is free *)
  assert (Htopfree : forall l, is_top l = true -> held_by_any (c_threads c) l = false).
  { intros l Hl. apply held_by_any_false. intros t Hin. specialize (Hnotop t Hin). unfold holds_top in Hnotop.
    destruct (existsb (lock_eqb l) (th_held t)) eqn:E; auto. apply existsb_exists in E. destruct E as (x & Hx & Ex).
    assert (existsb is_top (th_held t) = true); [|congruence]. apply existsb_exists. exists x. split; auto.
    rewrite <- Hl. symmetry. apply lock_eqb_is_top. exact Ex. }
  (* take an unfinished thread *)
  assert (Hex : exists t, In t (c_threads c) /\ th_result t = None).
  { unfold all_finished in Hnf. clear -Hnf. induction (c_threads c) as [|t r IH]; simpl in Hnf; [discriminate|].
    destruct (th_result t) eqn:E; [destruct IH as (t0 & H1 & H2); auto; exists t0; simpl; auto|exists t; simpl; auto]. }
  destruct Hex as (t & Hin & Hr). destruct (Hacq t Hin Hr) as (l & k & Hp & Hheld).
  destruct (is_top l) eqn:El; [rewrite Htopfree in Hheld by auto; discriminate|].
  (* l = LOp _ is held by some thread t2, which holds no top lock, so is parked at a Call or at a free top lock *)
  unfold held_by_any in Hheld. apply existsb_exists in Hheld. destruct Hheld as (t2 & Hin2 & H2).
  destruct (th_result t2) eqn:Hr2.
  - specialize (Hok t2 Hin2). unfold thread_ok in Hok. rewrite Hr2 in Hok. rewrite Hok in H2. discriminate.
  - destruct (Hacq t2 Hin2 Hr2) as (l2 & k2 & Hp2 & Hheld2).
    specialize (Hok t2 Hin2). unfold thread_ok in Hok. rewrite Hr2 in Hok. destruct Hok as (_ & Hw & _).
    rewrite Hp2 in Hw. cbn [wf] in Hw. destruct Hw as [Hside _].
    destruct (is_top l2) eqn:El2; [rewrite Htopfree in Hheld2 by auto; discriminate|].
    rewrite Hside in H2. discriminate.
Qed.

Theorem no_deadlock s rpcs fuel sched :
  let c := run_sched fuel sched (start s rpcs) in all_finished c = false -> first_enabled c <> None.
Proof. intros c. apply progress. apply run_sched_ok. apply start_ok. Qed.
