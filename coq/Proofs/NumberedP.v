(* The operations of every worker are numbered 1, 2, ... in every reachable state (SuggestTrials numbers a new operation
   "count of the worker's operations + 1" and nothing else writes operations).  This discharges the numbering hypothesis of
   the sticky theorem (C02) and of the RAM / SQL numbering agreement (C07) on reachable states. *)
From VZ Require Import Base.Prelude Base.XFloat Model.Metadata Model.Service Proofs.WedgeP Proofs.StickyP.
From Coq Require Import Lia.

Definition numbered (s : state) : Prop :=
  forall k n c, In (k, n) (nodes s) -> numbered_from' 1 (filter (fun o => N.eqb (o_client o) c) (n_ops n)).

(* every node of s' carries the operation list of the node with the same key in s, or none *)
Definition ops_same (s s' : state) : Prop :=
  forall k' n', In (k', n') (nodes s') -> n_ops n' = [] \/ exists n, In (k', n) (nodes s) /\ n_ops n' = n_ops n.

Lemma ops_same_refl s : ops_same s s.
Proof. intros k n H. right. exists n. auto. Qed.
Lemma ops_same_trans a b c : ops_same a b -> ops_same b c -> ops_same a c.
Proof.
  intros H1 H2 k n Hn. destruct (H2 k n Hn) as [He|[n1 [Hn1 He]]]; [left; exact He|].
  destruct (H1 k n1 Hn1) as [He1|[n0 [Hn0 He0]]]; [left; congruence|right; exists n0; split; [exact Hn0|congruence]].
Qed.
Lemma upd_ops_same s k n n' : get_node k (nodes s) = Some n -> n_ops n' = n_ops n -> ops_same s (upd s k n').
Proof.
  intros Hg Ho k' m Hin. unfold upd in Hin. simpl in Hin. apply In_set_node in Hin. destruct Hin as [[-> ->]|Hin].
  - right. exists n. split; [apply get_node_In; exact Hg|exact Ho].
  - right. exists m. auto.
Qed.

Lemma exec_ops_same c s s' r : sop_free c = true -> exec c s = (s', r) -> ops_same s s'.
Proof.
  intros Hf H. destruct c; simpl in Hf; try discriminate; simpl in H; revert H; exec_cases; intros [= <- <-];
    try apply ops_same_refl; try (eapply upd_ops_same; [eassumption|reflexivity]).
  - intros k' n' Hin. simpl in Hin. apply in_app_or in Hin. destruct Hin as [Hin|[Hin|[]]].
    + right. exists n'. auto.
    + injection Hin as <- <-. left. reflexivity.
  - intros k' n' Hin. simpl in Hin. apply in_app_or in Hin. destruct Hin as [Hin|[Hin|[]]].
    + right. exists n'. auto.
    + injection Hin as <- <-. left. reflexivity.
  - intros k' n' Hin. simpl in Hin. apply In_del_node in Hin. right. exists n'. auto.
Qed.

Lemma numbered_same s s' : numbered s -> ops_same s s' -> numbered s'.
Proof.
  intros H Hs k n c Hn. destruct (Hs k n Hn) as [He|[n0 [Hn0 He]]]; rewrite He; [exact I|exact (H k n0 c Hn0)].
Qed.

(* numbering depends on the sequence of numbers only *)
Lemma numbered_nums : forall l l' i, map o_num l = map o_num l' -> numbered_from' i l -> numbered_from' i l'.
Proof.
  induction l as [|x r IH]; intros [|y r'] i Hm H; simpl in *; try discriminate; [exact I|].
  injection Hm as Hxy Hr. destruct H as [Hx Hrest]. split; [congruence|eapply IH; eauto].
Qed.
Lemma set_op_filter_nums o l c :
  map o_num (filter (fun x => N.eqb (o_client x) c) (set_op o l)) = map o_num (filter (fun x => N.eqb (o_client x) c) l).
Proof.
  induction l as [|a r IH]; simpl; [reflexivity|]. destruct (op_is (o_client o) (o_num o) a) eqn:E.
  - apply op_is_key in E. unfold opkey in E. injection E as Ec En. simpl. rewrite <- Ec.
    destruct (N.eqb (o_client a) c); simpl; [rewrite En; reflexivity|reflexivity].
  - simpl. destruct (N.eqb (o_client a) c); simpl; rewrite IH; reflexivity.
Qed.
Lemma numbered_app : forall l i o, numbered_from' i l -> o_num o = (i + N.of_nat (length l))%N -> numbered_from' i (l ++ [o]).
Proof.
  induction l as [|x r IH]; intros i o H Ho; simpl in *.
  - split; [lia|exact I].
  - destruct H as [Hx Hr]. split; [exact Hx|]. apply IH; [exact Hr|lia].
Qed.

Lemma nosop_run_same p : nosop p -> forall s po tr s' o tr', run p s po tr = (s', o, tr') -> ops_same s s'.
Proof.
  induction 1 as [r|e|c k Hc Hk IH|l p Hp IH|l p Hp IH|q k Hk IH]; intros s po tr s' o tr' Hr; simpl in Hr.
  - injection Hr as <- _ _. apply ops_same_refl.
  - injection Hr as <- _ _. apply ops_same_refl.
  - destruct (exec c s) as [s1 r] eqn:E. eapply ops_same_trans; [eapply exec_ops_same; eauto|eapply IH; eauto].
  - eapply IH; eauto.
  - eapply IH; eauto.
  - eapply IH; eauto.
Qed.

(* updating an existing operation keeps the numbering *)
Lemma update_sop_numbered s k o s' r : numbered s -> exec (CUpdateSop k o) s = (s', r) -> numbered s'.
Proof.
  intros H He. simpl in He. destruct (get_node k (nodes s)) as [n|] eqn:Hg; [|injection He as <- _; exact H].
  destruct (existsb (op_is (o_client o) (o_num o)) (n_ops n)); [|injection He as <- _; exact H].
  injection He as <- _. intros k' m c Hin. unfold upd in Hin. simpl in Hin. apply In_set_node in Hin.
  destruct Hin as [[-> ->]|Hin]; [|exact (H k' m c Hin)]. simpl.
  eapply numbered_nums; [symmetry; apply set_op_filter_nums|]. exact (H k n c (get_node_In _ _ _ Hg)).
Qed.

Lemma fin_run_numbered k c num p : fin k c num p -> forall s po tr s' o tr', numbered s ->
  run p s po tr = (s', o, tr') -> numbered s'.
Proof.
  induction 1 as [e|o0 err out Hc Hn|cl kont Hf Hk IH|l p Hp IH|l p Hp IH|q kont Hk IH]; intros s po tr s' o tr' N Hr.
  - simpl in Hr. injection Hr as <- _ _. exact N.
  - unfold finish_op in Hr. cbn [run] in Hr.
    destruct (exec (CUpdateSop k (mkOp (o_client o0) (o_num o0) true err out)) s) as [s1 r1] eqn:E.
    pose proof (update_sop_numbered _ _ _ _ _ N E) as N1.
    destruct r1 as [x|e]; cbn [expect_unit run] in Hr; injection Hr as <- _ _; exact N1.
  - simpl in Hr. destruct (exec cl s) as [s1 r1] eqn:E. eapply IH; [|exact Hr].
    eapply numbered_same; [exact N|eapply exec_ops_same; eauto].
  - simpl in Hr. eapply IH; eauto.
  - simpl in Hr. eapply IH; eauto.
  - simpl in Hr. eapply IH; eauto.
Qed.

Lemma filter_app_last {A} (f : A -> bool) l x : filter f (l ++ [x]) = if f x then filter f l ++ [x] else filter f l.
Proof. rewrite filter_app. simpl. destruct (f x); [reflexivity|apply app_nil_r]. Qed.

Lemma suggest_numbered k c count s po s' o tr' : wf s -> numbered s ->
  run (h_suggest k c count) s po [] = (s', o, tr') -> numbered s'.
Proof.
  intros W N. rewrite h_suggest_shape. unfold guard_study. cbn [run exec].
  destruct (get_node k (nodes s)) as [n|] eqn:Hg; [|cbn [run]; intros [= <- _ _]; exact N].
  destruct (immutable (n_study n)); [cbn [run]; intros [= <- _ _]; exact N|].
  cbn [run exec]. rewrite Hg. cbn [run exec]. rewrite Hg.
  set (mine := filter (fun o => N.eqb (o_client o) c) (n_ops n)) in *.
  assert (Hcreate : forall tr,
    run (Call (CCreateSop k (mkOp c (N.of_nat (length mine) + 1) false false []))
              (fun r3 => expect_unit r3 (suggest_tail k c count (mkOp c (N.of_nat (length mine) + 1) false false []))))
        s po tr = (s', o, tr') -> numbered s').
  { intros tr Hr. cbn [run exec] in Hr. rewrite Hg in Hr. cbn [o_client o_num] in Hr.
    destruct (existsb (op_is c (N.of_nat (length mine) + 1)) (n_ops n)); cbn [expect_unit run] in Hr.
    - injection Hr as <- _ _. exact N.
    - set (o1 := mkOp c (N.of_nat (length mine) + 1) false false []) in *.
      eapply (fin_run_numbered k c (N.of_nat (length mine) + 1)); [apply (fin_suggest_tail k c count o1)| |exact Hr].
      intros k' m c' Hin. unfold upd in Hin. cbn [nodes] in Hin. destruct W as [W1 _].
      apply (In_set_node_strict _ _ _ _ _ W1) in Hin. destruct Hin as [[-> ->]|[_ Hin]]; [|exact (N k' m c' Hin)].
      cbn [n_ops]. rewrite filter_app_last. cbn [o_client o1].
      destruct (N.eqb_spec c c') as [<-|Hne].
      + fold mine. apply numbered_app; [exact (N k n c (get_node_In _ _ _ Hg))|]. cbn [o_num o1]. lia.
      + exact (N k n c' (get_node_In _ _ _ Hg)). }
  destruct mine as [|o0 rest] eqn:Em.
  - cbn [run exec]. rewrite Hg. fold mine. rewrite Em. intros Hr. eapply Hcreate. exact Hr.
  - cbn zeta. destruct (filter (fun o1 => negb (o_done o1)) (o0 :: rest)) as [|u us] eqn:Eu.
    + cbn [run exec]. rewrite Hg. fold mine. rewrite Em. intros Hr. eapply Hcreate. exact Hr.
    + cbn [run]. intros [= <- _ _]. exact N.
Qed.

Theorem numbered_step s ro : wf s -> numbered s -> numbered (step_state s ro) /\ wf (step_state s ro).
Proof.
  intros W N. destruct ro as [rp po]. unfold step_state, step. cbn [fst snd].
  destruct (run (handler rp) s po []) as [[s1 o1] tr1] eqn:Hr. cbn [fst].
  assert (Hcase : (exists k c n, rp = SuggestTrials k c n) \/ (forall k c n, rp <> SuggestTrials k c n)).
  { destruct rp; try (right; intros; discriminate). left. eauto. }
  destruct Hcase as [[k [c [n ->]]]|Hne].
  - cbn [handler] in Hr. split; [eapply suggest_numbered; eauto|].
    (* wf: every call preserves it *)
    clear N. revert Hr. generalize (@nil (call * option errclass)). generalize (h_suggest k c n). intros p.
    revert s W. induction p as [r|e|cl kont IH|l p IH|l p IH|q kont IH]; intros s W tr Hr; simpl in Hr.
    + injection Hr as <- _ _. exact W.
    + injection Hr as <- _ _. exact W.
    + destruct (exec cl s) as [s2 r2] eqn:E. eapply IH; [eapply exec_wf; eauto|exact Hr].
    + eapply IH; eauto.
    + eapply IH; eauto.
    + eapply IH; eauto.
  - pose proof (nosop_handler rp Hne) as Hns. split.
    + eapply numbered_same; [exact N|eapply nosop_run_same; eauto].
    + destruct (nosop_run _ Hns _ _ _ _ _ _ Hr) as [_ H2]. auto.
Qed.

Theorem reachable_numbered ops : numbered (run_all ops init_state) /\ wf (run_all ops init_state).
Proof.
  assert (H : forall s, wf s -> numbered s -> numbered (run_all ops s) /\ wf (run_all ops s)).
  { induction ops as [|ro rest IH]; intros s W N; [simpl; auto|].
    unfold run_all. cbn [fold_left]. destruct (numbered_step s ro W N) as [N1 W1]. apply IH; assumption. }
  apply H; [exact (proj1 wf_init)|intros k n c []].
Qed.
