(* Consequences on reachable states: the hypotheses of the sticky theorem (C02) and of the RAM / SQL operation-numbering
   agreement (C07) hold in every state reached from the initial state by any sequence of RPCs. *)
From VZ Require Import Base.Prelude Base.XFloat Model.Metadata Model.Service Proofs.ServiceP Proofs.WedgeP Proofs.StickyP Proofs.NumberedP.
From Coq Require Import Lia.

Theorem sticky_reachable ops k n c count po :
  let s := run_all ops init_state in
  get_node k (nodes s) = Some n -> immutable (n_study n) = false ->
  (forall o, In o (filter (fun o => N.eqb (o_client o) c) (n_ops n)) -> o_done o = true) ->
  (count <= length (filter (fun t => tstate_eqb (t_state t) ACTIVE && N.eqb (t_client t) c) (n_trials n)))%nat ->
  exists o s', step s (SuggestTrials k c count, po) = (s', Done (RpOp o)) /\
    o_done o = true /\ o_err o = false /\
    o_trials o = firstn count (filter (fun t => tstate_eqb (t_state t) ACTIVE && N.eqb (t_client t) c) (n_trials n)) /\
    (exists n', get_node k (nodes s') = Some n' /\ n_trials n' = n_trials n /\ n_study n' = n_study n).
Proof.
  intros s Hg Him Hdone Hcount. apply sticky; auto.
  destruct (reachable_numbered ops) as [N _]. apply (N k n c). apply get_node_In. exact Hg.
Qed.

(* RAM numbers a worker's next operation len+1, SQL max+1: the two agree in every reachable state *)
Lemma numbered_max' l : forall i, numbered_from' (i + 1) l ->
  fold_left (fun m o => N.max m (o_num o)) l i = (i + N.of_nat (length l))%N.
Proof.
  induction l as [|o r IH]; intros i H; simpl; [lia|]. destruct H as [Ho Hr].
  rewrite Ho. replace (N.max i (i + 1)) with (i + 1)%N by lia. rewrite IH by exact Hr. lia.
Qed.
Theorem numbering_agrees_reachable ops k n c :
  get_node k (nodes (run_all ops init_state)) = Some n ->
  N.of_nat (length (filter (fun o => N.eqb (o_client o) c) (n_ops n))) =
  fold_left (fun m o => N.max m (o_num o)) (filter (fun o => N.eqb (o_client o) c) (n_ops n)) 0%N.
Proof.
  intros Hg. destruct (reachable_numbered ops) as [N _]. pose proof (N k n c (get_node_In _ _ _ Hg)) as H.
  rewrite (numbered_max' _ 0 H). lia.
Qed.
