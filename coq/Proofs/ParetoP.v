From VZ Require Import Base.Prelude Base.XFloat Model.Pareto.
From Coq Require Import ZifyBool.

Ltac xf_cases := intros; repeat match goal with x : xf |- _ => destruct x end; simpl in *; try discriminate; try reflexivity; try lia.

Lemma xgt_irrefl a : xgt a a = false. Proof. xf_cases. Qed.
Lemma xgt_trans a b c : xgt a b = true -> xgt b c = true -> xgt a c = true. Proof. xf_cases. Qed.
Lemma xge_trans a b c : xge a b = true -> xge b c = true -> xge a c = true. Proof. unfold xge. xf_cases. Qed.
Lemma xgt_xge_trans a b c : xgt a b = true -> xge b c = true -> xgt a c = true. Proof. unfold xge. xf_cases. Qed.
Lemma xge_xgt_trans a b c : xge a b = true -> xgt b c = true -> xgt a c = true. Proof. unfold xge. xf_cases. Qed.
Lemma xgt_total a b : is_nan a = false -> is_nan b = false -> xgt a b = false -> xge b a = true.
Proof. unfold xge. xf_cases. Qed.
Lemma xge_not_gt a b : xge a b = true -> xgt b a = false. Proof. unfold xge. xf_cases. Qed.
Lemma xge_nogt_eq a b : xge a b = true -> xgt a b = false -> xeq b a = true. Proof. unfold xge. xf_cases. Qed.
Lemma xeq_ge a b : xeq a b = true -> xge b a = true. Proof. unfold xge. xf_cases. Qed.
Lemma xeq_nogt a b : xeq a b = true -> xgt b a = false. Proof. xf_cases. Qed.
Lemma xgt_not_ge a b : xgt a b = true -> xge b a = false. Proof. unfold xge. xf_cases. Qed.
Lemma xgt_ge a b : xgt a b = true -> xge a b = true. Proof. unfold xge. intros ->. reflexivity. Qed.

Definition good (d : nat) (p : vec) : Prop := length p = d /\ vec_nonan p = true.

Lemma good_cons d x p : good (S d) (x :: p) -> is_nan x = false /\ good d p.
Proof. intros [Hl Hn]. simpl in *. apply andb_prop in Hn. destruct Hn as [H1 H2]. apply negb_true_iff in H1. split; auto. split; auto. Qed.

Ltac two_vecs d p a IH :=
  induction d as [|d IH]; intros p a Hp Ha;
  [destruct p, a; destruct Hp as [Hp ?], Ha as [Ha ?]; simpl in *; try discriminate
  |destruct p as [|x p], a as [|y a]; try (destruct Hp as [Hp ?], Ha as [Ha ?]; simpl in *; discriminate);
   apply good_cons in Hp; apply good_cons in Ha; destruct Hp as [Hx Hp], Ha as [Hy Ha]; cbn [all2 any2]].

(* np.any(p > a)  <->  not (a >= p everywhere) *)
Lemma anygt_not_allge d : forall p a, good d p -> good d a -> any2 xgt p a = negb (all2 xge a p).
Proof.
  two_vecs d p a IH; auto.
  rewrite (IH p a Hp Ha). destruct (xgt x y) eqn:E; simpl.
  - rewrite (xgt_not_ge x y); auto.
  - rewrite (xgt_total x y); auto.
Qed.

(* np.any(p > a) | np.all(p == a)  <->  a does not dominate p *)
Lemma keep_iff_not_dominated d : forall p a, good d p -> good d a ->
  any2 xgt p a || all2 xeq p a = negb (dominates a p).
Proof.
  unfold dominates.
  two_vecs d p a IH; auto.
  specialize (IH p a Hp Ha).
  destruct (xgt x y) eqn:E; simpl.
  - rewrite (xgt_not_ge x y); auto.
  - rewrite (xgt_total x y) by auto. simpl.
    destruct (xgt y x) eqn:E2; simpl.
    + assert (xeq x y = false) by (revert E2; clear; xf_cases). rewrite H. simpl.
      rewrite orb_false_r. rewrite (anygt_not_allge d p a Hp Ha). destruct (all2 xge a p); reflexivity.
    + assert (xeq x y = true) by (apply xge_nogt_eq; auto; apply xgt_total; auto). rewrite H. simpl. exact IH.
Qed.

Lemma dominated_by_dominates yi yj : dominated_by yi yj = dominates yj yi.
Proof.
  unfold dominated_by, dominates. f_equal.
  revert yj; induction yi as [|x yi IH]; intros [|y yj]; simpl; auto. unfold xle at 1. rewrite IH. reflexivity.
Qed.

Lemma dominates_irrefl d : forall p, good d p -> dominates p p = false.
Proof.
  unfold dominates. induction d as [|d IH]; intros p Hp.
  - destruct p; destruct Hp; simpl in *; try discriminate. reflexivity.
  - destruct p as [|x p]; [destruct Hp; discriminate|]. apply good_cons in Hp. destruct Hp as [Hx Hp].
    simpl. rewrite xgt_irrefl. simpl. specialize (IH p Hp). destruct (xge x x); simpl; auto.
Qed.

Lemma allge_trans d : forall r q p, good d r -> good d q -> good d p ->
  all2 xge r q = true -> all2 xge q p = true -> all2 xge r p = true.
Proof.
  induction d as [|d IH]; intros r q p Hr Hq Hp.
  - destruct r, q, p; destruct Hr, Hq, Hp; simpl in *; try discriminate; auto.
  - destruct r as [|a r], q as [|b q], p as [|c p]; try (destruct Hr, Hq, Hp; simpl in *; discriminate).
    apply good_cons in Hr, Hq, Hp. destruct Hr as [Na Hr], Hq as [Nb Hq], Hp as [Nc Hp]. simpl.
    rewrite !andb_true_iff. intros [H1 H2] [H3 H4]. split; [apply (xge_trans a b c); auto|apply (IH r q p); auto].
Qed.

Lemma anygt_ge_trans d : forall r q p, good d r -> good d q -> good d p ->
  any2 xgt r q = true -> all2 xge r q = true -> all2 xge q p = true -> any2 xgt r p = true.
Proof.
  induction d as [|d IH]; intros r q p Hr Hq Hp.
  - destruct r, q, p; destruct Hr, Hq, Hp; simpl in *; try discriminate; auto.
  - destruct r as [|a r], q as [|b q], p as [|c p]; try (destruct Hr, Hq, Hp; simpl in *; discriminate).
    apply good_cons in Hr, Hq, Hp. destruct Hr as [Na Hr], Hq as [Nb Hq], Hp as [Nc Hp]. simpl.
    rewrite !orb_true_iff, !andb_true_iff. intros [H1|H1] [H2 H2'] [H3 H4].
    + left. apply (xgt_xge_trans a b c); auto.
    + right. apply (IH r q p); auto.
Qed.

Lemma ge_anygt_trans d : forall r q p, good d r -> good d q -> good d p ->
  all2 xge r q = true -> any2 xgt q p = true -> all2 xge q p = true -> any2 xgt r p = true.
Proof.
  induction d as [|d IH]; intros r q p Hr Hq Hp.
  - destruct r, q, p; destruct Hr, Hq, Hp; simpl in *; try discriminate; auto.
  - destruct r as [|a r], q as [|b q], p as [|c p]; try (destruct Hr, Hq, Hp; simpl in *; discriminate).
    apply good_cons in Hr, Hq, Hp. destruct Hr as [Na Hr], Hq as [Nb Hq], Hp as [Nc Hp]. simpl.
    rewrite !orb_true_iff, !andb_true_iff. intros [H2 H2'] [H1|H1] [H3 H4].
    + left. apply (xge_xgt_trans a b c); auto.
    + right. apply (IH r q p); auto.
Qed.

Lemma dominates_trans d r q p : good d r -> good d q -> good d p ->
  dominates r q = true -> dominates q p = true -> dominates r p = true.
Proof.
  unfold dominates. intros Hr Hq Hp. rewrite !andb_true_iff. intros [H1 H2] [H3 H4]. split.
  - apply (allge_trans d r q p); auto.
  - apply (anygt_ge_trans d r q p); auto.
Qed.

(* ---------- naive_against *)
Lemma naive_against_strict_correct d points against :
  Forall (good d) points -> Forall (good d) against ->
  naive_against true points against =
  map (fun p => negb (existsb (fun a => dominates a p) against)) points.
Proof.
  intros Hp Ha. unfold naive_against. apply map_ext_in. intros p Hin.
  rewrite Forall_forall in Hp. specialize (Hp p Hin). unfold naive_point_against.
  assert (E : forallb (fun a => any2 xgt p a || all2 xeq p a) against = negb (existsb (fun a => dominates a p) against)).
  { clear -Ha Hp. induction against as [|a t IH]; simpl; auto. inversion Ha; subst.
    rewrite (keep_iff_not_dominated d p a) by auto. rewrite IH by auto. destruct (dominates a p); reflexivity. }
  destruct (forallb (fun b => b) (map (fun a => any2 xgt p a) against)) eqn:Eall; [|exact E].
  rewrite <- E. symmetry. clear E. rewrite forallb_forall in *. intros a Hina.
  rewrite (Eall (any2 xgt p a)); auto. apply in_map_iff. exists a; auto.
Qed.

Lemma naive_against_nonstrict_correct d points against :
  Forall (good d) points -> Forall (good d) against ->
  naive_against false points against =
  map (fun p => negb (existsb (fun a => weakly_dominates a p) against)) points.
Proof.
  intros Hp Ha. unfold naive_against. apply map_ext_in. intros p Hin.
  rewrite Forall_forall in Hp. specialize (Hp p Hin). unfold naive_point_against.
  assert (E : forallb (fun b => b) (map (fun a => any2 xgt p a) against) = negb (existsb (fun a => weakly_dominates a p) against)).
  { clear -Ha Hp. induction against as [|a t IH]; simpl; auto. inversion Ha; subst.
    rewrite (anygt_not_allge d p a) by auto. rewrite IH by auto. unfold weakly_dominates. destruct (all2 xge a p); reflexivity. }
  rewrite E. destruct (negb _); reflexivity.
Qed.

(* ---------- service / rank / jax *)
Lemma svc_optimal_correct ys : svc_optimal ys = spec_optimal ys.
Proof.
  unfold svc_optimal, spec_optimal, spec_optimal_among. apply map_ext. intros y. f_equal.
  induction ys as [|q t IH]; simpl; auto. rewrite dominated_by_dominates, IH. reflexivity.
Qed.

Lemma jax_against_strict_correct yy ys :
  jax_against true yy ys = map (fun p => negb (existsb (fun q => dominates q p) ys)) yy.
Proof.
  unfold jax_against. apply map_ext. intros y. f_equal.
  induction ys as [|q t IH]; cbn [existsb]; auto. rewrite <- IH.
  change (jax_is_dominated true y q) with (dominated_by y q). rewrite dominated_by_dominates. reflexivity.
Qed.

Lemma pareto_rank_counts ys :
  pareto_rank ys = map (fun y => length (filter (fun q => dominates q y) ys)) ys.
Proof.
  unfold pareto_rank. apply map_ext. intros y. f_equal. apply filter_ext. intros q. apply dominated_by_dominates.
Qed.

Lemma filter_nil_iff {A} (f : A -> bool) l : length (filter f l) = 0 <-> existsb f l = false.
Proof. induction l as [|x t IH]; simpl; [tauto|]. destruct (f x); simpl; [split; discriminate|exact IH]. Qed.

Lemma rank_zero_iff_optimal ys y :
  length (filter (fun q => dominates q y) ys) = 0 <-> spec_optimal_among ys y = true.
Proof. unfold spec_optimal_among. rewrite negb_true_iff. apply filter_nil_iff. Qed.

(* ---------- naive_opt : the revision loop *)
Lemma revise_spec d p : good d p -> forall points is_opt, Forall (good d) points -> length is_opt = length points ->
  revise p points is_opt = map (fun qb => snd qb && negb (dominates p (fst qb))) (combine points is_opt).
Proof.
  intros Hp. induction points as [|q ps IH]; intros [|b bs] Hg Hl; simpl in *; try discriminate; auto.
  inversion Hg; subst. rewrite IH by (auto; lia). f_equal.
  rewrite (keep_iff_not_dominated d q p) by auto. destruct b; reflexivity.
Qed.

Lemma nth_combine_map {A B C} (f : A * B -> C) (l1 : list A) (l2 : list B) j da db dc :
  length l1 = length l2 -> j < length l1 ->
  nth j (map f (combine l1 l2)) dc = f (nth j l1 da, nth j l2 db).
Proof.
  revert l2 j; induction l1 as [|x t IH]; intros [|y t2] j Hl Hj; simpl in *; try lia.
  destruct j; auto. apply IH; lia.
Qed.

Lemma skipn_S_tail {A} : forall i (l : list A) p rest, p :: rest = skipn i l -> rest = skipn (S i) l.
Proof.
  induction i as [|i IH]; intros [|x l] p rest H; simpl in *; try discriminate.
  - injection H; auto.
  - apply (IH l p rest H).
Qed.

Section Naive.
  Variable d : nat.
  Variable ps : list vec.
  Hypothesis Hgood : Forall (good d) ps.
  Let n := length ps.
  Let P (k : nat) := nth k ps [].

  Lemma good_P k : k < n -> good d (P k).
  Proof. intros. rewrite Forall_forall in Hgood. apply Hgood. apply nth_In. auto. Qed.

  Definition state_ok (i : nat) (is_opt : list bool) : Prop :=
    length is_opt = n /\
    (forall j, j < n -> nth j is_opt false = false -> exists k, k < n /\ dominates (P k) (P j) = true) /\
    (forall k j, k < i -> k < n -> j < n -> nth k is_opt false = true -> dominates (P k) (P j) = true ->
       nth j is_opt false = false).

  Lemma loop_inv : forall todo i is_opt, todo = skipn i ps -> i <= n -> state_ok i is_opt ->
    state_ok n (naive_loop todo i ps is_opt).
  Proof.
    induction todo as [|p rest IH]; intros i is_opt Htodo Hi Hok.
    - simpl. assert (i = n).
      { assert (length (skipn i ps) = 0) by (rewrite <- Htodo; reflexivity). rewrite skipn_length in H. unfold n. lia. }
      subst i. exact Hok.
    - assert (Hlt : i < n).
      { assert (length (skipn i ps) > 0) by (rewrite <- Htodo; simpl; lia). rewrite skipn_length in H. unfold n. lia. }
      assert (Hp : p = P i).
      { unfold P. rewrite <- (firstn_skipn i ps) at 1. rewrite app_nth2; rewrite firstn_length_le by (unfold n in *; lia); [|lia].
        rewrite Nat.sub_diag, <- Htodo. reflexivity. }
      assert (Hrest : rest = skipn (S i) ps).
      { apply (skipn_S_tail i ps p rest Htodo). }
      cbn [naive_loop]. apply IH; [exact Hrest|lia|].
      destruct Hok as (Hlen & I1 & I2).
      destruct (nth i is_opt false) eqn:Ei.
      + assert (Hgp : good d p) by (rewrite Hp; apply good_P; auto).
        rewrite (revise_spec d p Hgp ps is_opt Hgood) by (unfold n in *; lia).
        assert (Hnth : forall j, j < n -> nth j (map (fun qb => snd qb && negb (dominates p (fst qb))) (combine ps is_opt)) false
                               = nth j is_opt false && negb (dominates p (P j))).
        { intros j Hj. rewrite (nth_combine_map _ ps is_opt j [] false false) by (auto; lia). reflexivity. }
        split; [rewrite map_length, combine_length; lia|]. split.
        * intros j Hj. rewrite Hnth by auto. intros Hf. apply andb_false_iff in Hf. destruct Hf as [Hf|Hf].
          -- apply I1; auto.
          -- apply negb_false_iff in Hf. exists i. subst p. auto.
        * intros k j Hk Hkn Hj. rewrite !Hnth by auto. intros Hk1 Hdom. apply andb_prop in Hk1. destruct Hk1 as [Hk1 _].
          assert (k < i \/ k = i) as [Hki|Hki] by lia.
          -- rewrite (I2 k j) by auto. reflexivity.
          -- subst k. rewrite <- Hp in Hdom. rewrite Hdom. apply andb_false_r.
      + split; auto. split; auto.
        intros k j Hk Hkn Hj Hk1 Hdom. assert (k < i \/ k = i) as [Hki|Hki] by lia.
        * apply (I2 k j); auto.
        * subst k. congruence.
  Qed.

  (* every dominated point has a dominator that is itself non-dominated *)
  Lemma filter_length_lt {A} (f g : A -> bool) l :
    (forall x, In x l -> f x = true -> g x = true) -> (exists x, In x l /\ g x = true /\ f x = false) ->
    length (filter f l) < length (filter g l).
  Proof.
    induction l as [|y t IH]; intros Hsub (x & Hin & Hg & Hf); [destruct Hin|].
    assert (Hle : forall l', (forall x, In x l' -> f x = true -> g x = true) -> length (filter f l') <= length (filter g l')).
    { induction l' as [|z l' IHl]; simpl; intros Hs; auto.
      assert (H0 : length (filter f l') <= length (filter g l')) by (apply IHl; intros; apply Hs; auto).
      destruct (f z) eqn:E; [rewrite (Hs z (or_introl eq_refl) E); simpl; lia|destruct (g z); simpl; lia]. }
    assert (Hsubt : forall x, In x t -> f x = true -> g x = true) by (intros; apply Hsub; simpl; auto).
    simpl. destruct Hin as [->|Hin].
    - rewrite Hg, Hf. simpl. specialize (Hle t Hsubt). lia.
    - assert (Hlt : length (filter f t) < length (filter g t)) by (apply IH; eauto).
      destruct (f y) eqn:E; [rewrite (Hsub y (or_introl eq_refl) E); simpl; lia|].
      destruct (g y); simpl; lia.
  Qed.

  Lemma maximal_dominator : forall c k j, k < n -> j < n ->
    length (filter (fun q => dominates q (P k)) ps) <= c ->
    dominates (P k) (P j) = true ->
    exists m, m < n /\ dominates (P m) (P j) = true /\ existsb (fun q => dominates q (P m)) ps = false.
  Proof.
    induction c as [|c IH]; intros k j Hk Hj Hc Hdom.
    - exists k. repeat split; auto. apply filter_nil_iff. lia.
    - destruct (existsb (fun q => dominates q (P k)) ps) eqn:E.
      + apply existsb_exists in E. destruct E as (q & Hin & Hq).
        destruct (In_nth ps q [] Hin) as (k' & Hk' & Hnth). fold n in Hk'. fold (P k') in Hnth. subst q.
        apply (IH k' j); auto.
        * assert (length (filter (fun q => dominates q (P k')) ps) < length (filter (fun q => dominates q (P k)) ps)); [|lia].
          apply filter_length_lt.
          -- intros x Hinx Hx. destruct (In_nth ps x [] Hinx) as (kx & Hkx & Hnx). fold n in Hkx. fold (P kx) in Hnx. subst x.
             apply (dominates_trans d (P kx) (P k') (P k)); auto using good_P.
          -- exists (P k'). split; [apply nth_In; auto|]. split; auto. apply (dominates_irrefl d). apply good_P; auto.
        * apply (dominates_trans d (P k') (P k) (P j)); auto using good_P.
      + exists k. auto.
  Qed.

  Lemma init_ok : state_ok 0 (map (fun _ => true) ps).
  Proof.
    split; [apply map_length|]. split.
    - intros j Hj Hf. exfalso. rewrite (nth_indep _ false true) in Hf by (rewrite map_length; auto).
      rewrite (map_nth (fun _ : vec => true) ps [] j) in Hf. discriminate.
    - intros; lia.
  Qed.

  Lemma naive_opt_nth j : j < n ->
    nth j (naive_opt ps) false = negb (existsb (fun q => dominates q (P j)) ps).
  Proof.
    intros Hj. unfold naive_opt.
    destruct (loop_inv ps 0 (map (fun _ => true) ps) eq_refl ltac:(lia) init_ok) as (Hlen & I1 & I2).
    destruct (nth j (naive_loop ps 0 ps (map (fun _ => true) ps)) false) eqn:E.
    - symmetry. apply negb_true_iff. destruct (existsb (fun q => dominates q (P j)) ps) eqn:Ex; auto. exfalso.
      apply existsb_exists in Ex. destruct Ex as (q & Hin & Hq).
      destruct (In_nth ps q [] Hin) as (k & Hk & Hnth). fold n in Hk. fold (P k) in Hnth. subst q.
      destruct (maximal_dominator _ k j Hk Hj (le_n _) Hq) as (m & Hm & Hmd & Hmax).
      destruct (nth m (naive_loop ps 0 ps (map (fun _ => true) ps)) false) eqn:Em.
      + rewrite (I2 m j) in E; auto; discriminate.
      + destruct (I1 m Hm Em) as (k2 & Hk2 & Hd2).
        assert (existsb (fun q => dominates q (P m)) ps = true); [|congruence].
        apply existsb_exists. exists (P k2). split; auto. apply nth_In; auto.
    - symmetry. apply negb_false_iff. destruct (I1 j Hj E) as (k & Hk & Hd).
      apply existsb_exists. exists (P k). split; auto. apply nth_In; auto.
  Qed.

  Lemma naive_opt_length : length (naive_opt ps) = n.
  Proof.
    unfold naive_opt. destruct (loop_inv ps 0 (map (fun _ => true) ps) eq_refl ltac:(lia) init_ok) as (Hlen & _). exact Hlen.
  Qed.

  Lemma naive_opt_correct : naive_opt ps = spec_optimal ps.
  Proof.
    apply (nth_ext _ _ false false).
    - rewrite naive_opt_length. unfold spec_optimal. rewrite map_length. reflexivity.
    - intros j Hj. rewrite naive_opt_length in Hj. rewrite naive_opt_nth by auto.
      unfold spec_optimal. rewrite (nth_indep _ false (spec_optimal_among ps [])) by (rewrite map_length; auto).
      rewrite map_nth. reflexivity.
  Qed.
End Naive.

(* ---------- is_frontier (sharded filtering) *)
Lemma mask_update_spec (f : vec -> bool) : forall frontier ys, length frontier = length ys ->
  mask_update frontier (map f (select frontier ys)) = map (fun by_ => fst by_ && f (snd by_)) (combine frontier ys).
Proof.
  induction frontier as [|b fr IH]; intros [|y ys] Hl; simpl in *; try discriminate; auto.
  destruct b; simpl; rewrite IH by lia; reflexivity.
Qed.

Definition not_dom_in (ys : list vec) (be : nat * nat) (y : vec) : bool :=
  negb (existsb (fun q => dominates q y) (slice (fst be) (snd be) ys)).

Lemma map_combine_map {C} (h : bool * vec -> bool) (g : bool * vec -> C) : forall fr ys, length fr = length ys ->
  map g (combine (map h (combine fr ys)) ys) = map (fun by_ => g (h by_, snd by_)) (combine fr ys).
Proof.
  induction fr as [|x fr IH]; intros [|y ys] Hl; simpl in *; try discriminate; auto. rewrite IH by lia. reflexivity.
Qed.

Lemma frontier_loop_spec ys : forall pairs fr, length fr = length ys ->
  frontier_loop ys pairs fr =
  map (fun by_ => fst by_ && forallb (fun be => not_dom_in ys be (snd by_)) pairs) (combine fr ys).
Proof.
  induction pairs as [|[b e] rest IH]; intros fr Hl.
  - simpl. revert ys Hl. induction fr as [|x fr IHf]; intros [|y ys] Hl; simpl in *; try discriminate; auto.
    rewrite andb_true_r. f_equal. apply IHf. lia.
  - cbn [frontier_loop]. rewrite jax_against_strict_correct.
    rewrite (mask_update_spec (fun p => negb (existsb (fun q => dominates q p) (slice b e ys)))) by auto.
    rewrite IH by (rewrite map_length, combine_length; lia).
    rewrite map_combine_map by auto. apply map_ext. intros [x y]. cbn [fst snd forallb]. unfold not_dom_in at 2.
    cbn [fst snd]. rewrite andb_assoc. reflexivity.
Qed.

Fixpoint desc_chain (l : list nat) : Prop :=
  match l with
  | a :: ((b :: _) as t) => b <= a /\ desc_chain t
  | _ => True
  end.

Lemma cover : forall l i, desc_chain l -> last l 0 = 0 -> i < hd 0 l ->
  exists b e, In (b, e) (combine (tl l) (removelast l)) /\ b <= i < e.
Proof.
  induction l as [|a t IH]; intros i Hc Hlast Hi; [simpl in Hi; lia|].
  destruct t as [|b t]; [simpl in *; lia|].
  destruct Hc as [Hba Hc]. cbn [hd] in Hi.
  destruct (le_lt_dec b i) as [Hbi|Hib].
  - exists b, a. split; [left; reflexivity|lia].
  - destruct (IH i Hc Hlast Hib) as (b' & e' & Hin & Hr). exists b', e'. split; auto.
    change (removelast (a :: b :: t)) with (a :: removelast (b :: t)). cbn [tl combine]. right. exact Hin.
Qed.

Lemma In_firstn_nth {A} (dflt : A) : forall e (ys : list A) i, i < e -> i < length ys -> In (nth i ys dflt) (firstn e ys).
Proof.
  induction e as [|e IH]; intros [|y ys] i He Hl; simpl in *; try lia.
  destruct i; auto. right. apply IH; lia.
Qed.

Lemma in_slice {A} (dflt : A) : forall b (ys : list A) e i, b <= i -> i < e -> i < length ys ->
  In (nth i ys dflt) (slice b e ys).
Proof.
  unfold slice. induction b as [|b IH]; intros ys e i Hb He Hl.
  - simpl. rewrite Nat.sub_0_r. apply In_firstn_nth; auto.
  - destruct ys as [|y ys]; [simpl in Hl; lia|]. destruct i as [|i]; [lia|]. simpl in *.
    replace (e - S b) with ((e - 1) - b) by lia. apply IH; lia.
Qed.

Lemma firstn_incl {A} : forall k (l : list A) x, In x (firstn k l) -> In x l.
Proof. induction k as [|k IH]; intros [|y l] x H; simpl in *; try tauto. destruct H as [H|H]; [left; exact H|right; apply (IH l x H)]. Qed.
Lemma skipn_incl {A} : forall k (l : list A) x, In x (skipn k l) -> In x l.
Proof. induction k as [|k IH]; intros [|y l] x H; simpl in *; try tauto. right. apply (IH l x H). Qed.
Lemma slice_incl {A} b e (ys : list A) x : In x (slice b e ys) -> In x ys.
Proof. unfold slice. intros H. apply firstn_incl in H. apply skipn_incl in H. exact H. Qed.

Lemma map_all_true {A} (F G : A -> bool) : (forall y, F y = G y) -> forall ys,
  map (fun by_ : bool * A => fst by_ && F (snd by_)) (combine (map (fun _ => true) ys) ys) = map G ys.
Proof. intros E. induction ys as [|y t IH]; simpl; auto. rewrite IH, E. reflexivity. Qed.

Lemma is_frontier_correct idx_rev ys :
  desc_chain idx_rev -> hd 0 idx_rev = length ys -> last idx_rev 0 = 0 ->
  is_frontier idx_rev ys = spec_optimal ys.
Proof.
  intros Hc Hh Hl. unfold is_frontier. rewrite frontier_loop_spec by apply map_length.
  unfold spec_optimal.
  assert (E : forall y, forallb (fun be => not_dom_in ys be y) (combine (tl idx_rev) (removelast idx_rev)) = spec_optimal_among ys y).
  { intros y. unfold spec_optimal_among.
    destruct (existsb (fun q => dominates q y) ys) eqn:Ex; simpl.
    - apply existsb_exists in Ex. destruct Ex as (q & Hin & Hq).
      destruct (In_nth ys q [] Hin) as (i & Hi & Hn).
      destruct (cover idx_rev i Hc Hl ltac:(lia)) as (b & e & Hbe & Hr).
      destruct (forallb (fun be => not_dom_in ys be y) (combine (tl idx_rev) (removelast idx_rev))) eqn:Ef; auto.
      rewrite forallb_forall in Ef. specialize (Ef (b, e) Hbe). unfold not_dom_in in Ef. apply negb_true_iff in Ef.
      cbn [fst snd] in Ef. assert (existsb (fun q0 => dominates q0 y) (slice b e ys) = true); [|congruence].
      apply existsb_exists. exists q. split; auto. rewrite <- Hn. apply in_slice; lia.
    - apply forallb_forall. intros [b e] _. unfold not_dom_in. apply negb_true_iff. cbn [fst snd].
      destruct (existsb (fun q => dominates q y) (slice b e ys)) eqn:E2; auto.
      apply existsb_exists in E2. destruct E2 as (q & Hin & Hq). apply slice_incl in Hin.
      assert (existsb (fun q0 => dominates q0 y) ys = true); [|congruence]. apply existsb_exists. eauto. }
  apply (map_all_true (fun y => forallb (fun be => not_dom_in ys be y) (combine (tl idx_rev) (removelast idx_rev))) (spec_optimal_among ys) E).
Qed.
