From VZ Require Import Base.Prelude Base.XFloat Model.Metadata Model.Service Model.HandlerIR Model.OptimalIR Gen.OptimalSrc Proofs.HandlerIRP.
Import ListNotations.

Lemma select_is_filter : forall {A} (f : A -> bool) (l : list A), select_flagged l (map f l) = filter f l.
Proof. intros A f l. induction l as [|x r IH]; cbn; [reflexivity|]. destruct (f x); rewrite IH; reflexivity. Qed.

Theorem src_list_optimal_is_h_list_optimal : forall k, peq (list_optimal_of src_ListOptimalTrials k) (h_list_optimal k).
Proof.
  intros k. unfold list_optimal_of, src_ListOptimalTrials, h_list_optimal.
  lazy beta iota zeta delta [winterp w_trials w_metrics w_considered w_flags wenv0].
  apply peq_call_eq; [reflexivity|]. intros r. destruct r as [a|?]; [destruct a|]; cbn beta iota; try (apply peq_throw).
  destruct l as [|t0 l]; [apply peq_ret|].
  apply peq_call_eq; [reflexivity|]. intros r2. destruct r2 as [a|?]; [destruct a|]; cbn beta iota; try (apply peq_throw).
  unfold optimal_trials.
  destruct (flat_map _ (t0 :: l)) as [|c0 cs] eqn:E.
  - apply peq_ret.
  - rewrite select_is_filter. apply peq_ret.
Qed.
