(* Proofs about Model/Restart.v *)
From VZ Require Import Base.Prelude Model.Restart.
From Coq Require Import Decimal DecimalZ DecimalN DecimalPos Permutation.

(* ---------- generic restart theorem *)
Section MachineP.
  Variables St Md In Out : Type.
  Variable step : St -> In -> St * Out.
  Variable dump : St -> Md.
  Variable load : Md -> option St.
  Variable R : St -> St -> Prop.                  (* indistinguishable through public behaviour *)
  Hypothesis R_trans : forall a b c, R a b -> R b c -> R a c.
  Hypothesis R_step : forall s s' i, R s s' -> snd (step s i) = snd (step s' i) /\ R (fst (step s i)) (fst (step s' i)).
  Hypothesis restart_ok : forall s, exists s', load (dump s) = Some s' /\ R s' s.

  Theorem restart_equiv : forall ins s s', R s' s ->
    exists outs sf, run_restarts step dump load s' ins = Some (outs, sf) /\
                    outs = fst (run_live step s (map snd ins)) /\ R sf (snd (run_live step s (map snd ins))).
  Proof.
    induction ins as [|[rs i] rest IH]; intros s s' HR; simpl.
    - exists [], s'. auto.
    - assert (Hs1 : exists s1, (if rs then load (dump s') else Some s') = Some s1 /\ R s1 s).
      { destruct rs.
        - destruct (restart_ok s') as [s1 [H1 H2]]. exists s1. split; auto. eapply R_trans; eauto.
        - exists s'. auto. }
      destruct Hs1 as [s1 [-> HR1]].
      destruct (R_step s1 s i HR1) as [Ho HR2].
      destruct (step s1 i) as [s2 o] eqn:E1. destruct (step s i) as [t2 o'] eqn:E2. simpl in *. subst o'.
      destruct (IH t2 s2 HR2) as [outs [sf [H1 [H2 H3]]]]. rewrite H1.
      destruct (run_live step t2 (map snd rest)) as [os tf] eqn:E3. simpl in *.
      exists (o :: outs), sf. subst outs. auto.
  Qed.
End MachineP.

(* with equality as the equivalence: an exact restore *)
Theorem restart_equiv_eq {St Md In Out : Type} (step : St -> In -> St * Out) (dump : St -> Md) (load : Md -> option St) :
  (forall s, load (dump s) = Some s) ->
  forall ins s, run_restarts step dump load s ins =
                Some (fst (run_live step s (map snd ins)), snd (run_live step s (map snd ins))).
Proof.
  intros H ins s.
  destruct (restart_equiv St Md In Out step dump load eq) with (ins := ins) (s := s) (s' := s) as [outs [sf [H1 [H2 H3]]]]; auto.
  - intros; congruence.
  - intros ? ? ? ->. auto.
  - intros s0. exists s0. auto.
  - rewrite H1. congruence.
Qed.

(* ---------- decimal strings *)
Lemma undigs_digs u : undigs (digs u) = Some u.
Proof. induction u; simpl; try rewrite IHu; reflexivity. Qed.

Lemma digs_head u c r : digs u = c :: r -> (48 <= c <= 57)%N.
Proof. destruct u; simpl; intros H; inversion H; subst; lia. Qed.

Lemma digs_nil u : digs u = [] -> u = Nil.
Proof. destruct u; simpl; congruence. Qed.

Lemma py_int_digs u : u <> Nil -> py_int (digs u) = Some (Z.of_int (Pos u)).
Proof.
  intros Hu. unfold py_int. destruct (digs u) as [|c r] eqn:E.
  - apply digs_nil in E. contradiction.
  - pose proof (digs_head u c r E) as Hc.
    destruct (N.eqb_spec c 45) as [->|_]; [lia|].
    rewrite <- E, undigs_digs. reflexivity.
Qed.

Theorem py_int_str z : py_int (py_str_int z) = Some z.
Proof.
  unfold py_str_int. destruct (Z.to_int z) as [u|u] eqn:E.
  - assert (Hu : u <> Nil).
    { destruct z; simpl in E; inversion E; subst; [discriminate|apply Unsigned.to_uint_nonnil]. }
    rewrite py_int_digs by exact Hu. rewrite <- E, DecimalZ.of_to. reflexivity.
  - assert (Hu : u <> Nil).
    { destruct z; simpl in E; inversion E; subst. apply Unsigned.to_uint_nonnil. }
    unfold py_int. rewrite N.eqb_refl.
    destruct (digs u) as [|c r] eqn:E2; [apply digs_nil in E2; contradiction|].
    rewrite <- E2, undigs_digs. cbn [option_map]. rewrite <- E, DecimalZ.of_to. reflexivity.
Qed.

Lemma py_str_int_not_None z : str_eqb (py_str_int z) s_None = false.
Proof.
  unfold py_str_int. destruct (Z.to_int z) as [u|u].
  - destruct (digs u) as [|c r] eqn:E; [reflexivity|]. pose proof (digs_head u c r E).
    unfold s_None. simpl. destruct (N.eqb_spec c 78); [lia|reflexivity].
  - reflexivity.
Qed.

Theorem py_optint_str o : py_optint (py_str_optint o) = Some o.
Proof.
  destruct o as [z|]; unfold py_optint, py_str_optint.
  - rewrite py_str_int_not_None, py_int_str. reflexivity.
  - reflexivity.
Qed.

(* ---------- mixed-radix enumeration *)
Definition pos_dims (dims : list N) : Prop := Forall (fun d => (0 < d)%N) dims.

Lemma volume_pos dims : pos_dims dims -> (0 < volume dims)%N.
Proof. induction 1; simpl; [lia|]. unfold volume in *. simpl. nia. Qed.

Lemma digits_ok_digits dims : pos_dims dims -> forall i, digits_ok dims (digits dims i) = true.
Proof.
  induction 1 as [|d ds Hd Hds IH]; intros i; simpl; [reflexivity|].
  rewrite IH, andb_true_r. apply N.ltb_lt. apply N.mod_lt. lia.
Qed.

Lemma undigits_digits dims : pos_dims dims -> forall i, undigits dims (digits dims i) = (i mod volume dims)%N.
Proof.
  induction 1 as [|d ds Hd Hds IH]; intros i; simpl.
  - unfold volume. simpl. rewrite N.mod_1_r. reflexivity.
  - rewrite IH. change (volume (d :: ds)) with (d * volume ds)%N.
    pose proof (volume_pos ds Hds). rewrite N.mod_mul_r by lia. reflexivity.
Qed.

Lemma digits_undigits dims : forall xs, digits_ok dims xs = true -> digits dims (undigits dims xs) = xs.
Proof.
  induction dims as [|d ds IH]; intros [|x r] H; simpl in *; try discriminate; [reflexivity|].
  apply andb_true_iff in H. destruct H as [Hx Hr]. apply N.ltb_lt in Hx.
  assert (Hd : d <> 0%N) by lia.
  rewrite (N.mul_comm d), N.mod_add, N.mod_small by assumption.
  rewrite N.div_add, N.div_small, N.add_0_l by assumption. rewrite IH by assumption. reflexivity.
Qed.

Lemma undigits_lt dims : forall xs, digits_ok dims xs = true -> (undigits dims xs < volume dims)%N.
Proof.
  induction dims as [|d ds IH]; intros [|x r] H; simpl in *; try discriminate.
  - unfold volume. simpl. lia.
  - apply andb_true_iff in H. destruct H as [Hx Hr]. apply N.ltb_lt in Hx.
    specialize (IH r Hr). change (volume (d :: ds)) with (d * volume ds)%N. nia.
Qed.

Lemma digits_periodic dims : pos_dims dims -> forall i, digits dims i = digits dims (i mod volume dims)%N.
Proof.
  intros Hp i. rewrite <- (undigits_digits dims Hp i).
  symmetry. apply digits_undigits. apply digits_ok_digits. exact Hp.
Qed.

Lemma nseq_In start len x : In x (nseq start len) <-> (start <= x < start + N.of_nat len)%N.
Proof.
  revert start; induction len as [|l IH]; intros start; simpl.
  - split; [tauto|lia].
  - rewrite IH. split; [intros [->|H]; lia|intros H].
    destruct (N.eq_dec start x); [auto|right; lia].
Qed.

Lemma nseq_NoDup start len : NoDup (nseq start len).
Proof.
  revert start; induction len as [|l IH]; intros start; simpl; constructor; [|apply IH].
  rewrite nseq_In. lia.
Qed.

Lemma nseq_length start len : length (nseq start len) = len.
Proof. revert start; induction len; intros; simpl; auto. Qed.

Lemma nseq_app start a b : nseq start (a + b) = nseq start a ++ nseq (start + N.of_nat a) b.
Proof.
  revert start; induction a as [|a IH]; intros start; simpl.
  - rewrite N.add_0_r. reflexivity.
  - rewrite IH. do 3 f_equal. lia.
Qed.

Lemma NoDup_map_inj_in {A B} (f : A -> B) (l : list A) :
  (forall x y, In x l -> In y l -> f x = f y -> x = y) -> NoDup l -> NoDup (map f l).
Proof.
  induction l as [|a l IH]; intros Hinj Hnd; simpl; [constructor|].
  inversion Hnd; subst. constructor.
  - intros Hin. apply in_map_iff in Hin. destruct Hin as [y [Hy Hiny]].
    assert (y = a) by (apply Hinj; simpl; auto). subst. contradiction.
  - apply IH; [|assumption]. intros; apply Hinj; simpl; auto.
Qed.

(* one full period of the grid, starting at any multiple of the volume: every grid point exactly once *)
Theorem grid_period_exactly_once dims k : pos_dims dims ->
  let pts := map (digits dims) (nseq (k * volume dims) (N.to_nat (volume dims))) in
  NoDup pts /\ (forall xs, digits_ok dims xs = true <-> In xs pts).
Proof.
  intros Hp pts. pose proof (volume_pos dims Hp) as HV. split.
  - apply NoDup_map_inj_in; [|apply nseq_NoDup].
    intros x y Hx Hy Heq. rewrite nseq_In in Hx, Hy. rewrite N2Nat.id in Hx, Hy.
    assert (Hm : (x mod volume dims = y mod volume dims)%N).
    { rewrite <- !(undigits_digits dims Hp). rewrite Heq. reflexivity. }
    assert (Hxq : (x / volume dims = k)%N).
    { symmetry. apply (N.div_unique x (volume dims) k (x - k * volume dims)); lia. }
    assert (Hyq : (y / volume dims = k)%N).
    { symmetry. apply (N.div_unique y (volume dims) k (y - k * volume dims)); lia. }
    rewrite (N.div_mod x (volume dims)), (N.div_mod y (volume dims)) by lia. congruence.
  - intros xs. split.
    + intros Hok. unfold pts. apply in_map_iff.
      exists (k * volume dims + undigits dims xs)%N. split.
      * rewrite (digits_periodic dims Hp). rewrite N.add_comm, N.mod_add by lia.
        rewrite N.mod_small by (apply undigits_lt; exact Hok). apply digits_undigits. exact Hok.
      * rewrite nseq_In, N2Nat.id. pose proof (undigits_lt dims xs Hok). lia.
    + intros Hin. unfold pts in Hin. apply in_map_iff in Hin. destruct Hin as [i [<- _]].
      apply digits_ok_digits. exact Hp.
Qed.

(* ---------- grid restart *)
Theorem grid_load_dump s : grid_load (grid_dump s) = Some s.
Proof.
  destruct s as [i sd]. unfold grid_load, grid_dump. simpl.
  rewrite py_int_str, py_optint_str.
  destruct (Z.ltb_spec (Z.of_N i) 0); [lia|]. rewrite N2Z.id. reflexivity.
Qed.

Fixpoint total (cs : list nat) : nat := match cs with [] => O | c :: r => (c + total r)%nat end.

Lemma grid_live_concat dims : forall cs s,
  concat (fst (run_live (grid_step dims) s cs)) = map (digits dims) (nseq (g_index s) (total cs)) /\
  g_index (snd (run_live (grid_step dims) s cs)) = (g_index s + N.of_nat (total cs))%N /\
  g_seed (snd (run_live (grid_step dims) s cs)) = g_seed s.
Proof.
  induction cs as [|c cs IH]; intros s; simpl.
  - repeat split; lia.
  - destruct (IH {| g_index := g_index s + N.of_nat c; g_seed := g_seed s |}) as [H1 [H2 H3]].
    destruct (run_live (grid_step dims) _ cs) as [os sf] eqn:E. simpl in *.
    rewrite H1, nseq_app, map_app. repeat split; auto. rewrite H2. lia.
Qed.

(* whatever the batch sizes and wherever restarts are inserted, the suggestions are the grid points in index order *)
Theorem grid_restarts_enumerate dims ins outs sf :
  run_restarts (grid_step dims) grid_dump grid_load {| g_index := 0; g_seed := None |} ins = Some (outs, sf) ->
  concat outs = map (digits dims) (nseq 0 (total (map snd ins))).
Proof.
  rewrite (restart_equiv_eq (grid_step dims) grid_dump grid_load grid_load_dump). intros H. inversion H; subst.
  apply (grid_live_concat dims (map snd ins) {| g_index := 0; g_seed := None |}).
Qed.

Theorem grid_restarts_never_fail dims ins s :
  exists outs sf, run_restarts (grid_step dims) grid_dump grid_load s ins = Some (outs, sf).
Proof. rewrite (restart_equiv_eq (grid_step dims) grid_dump grid_load grid_load_dump). eauto. Qed.

(* ---------- quasi-random restart *)
Theorem qr_load_dump s : qr_load (qr_dump s) = Some s.
Proof.
  destruct s as [k sd]. unfold qr_load, qr_dump. simpl. rewrite !py_int_str.
  destruct (Z.ltb_spec (Z.of_N k) 0); [lia|]. rewrite N2Z.id. reflexivity.
Qed.

Theorem qr_restarts_same Pt (halton : Z -> N -> Pt) ins s :
  run_restarts (qr_step Pt halton) qr_dump qr_load s ins =
  Some (fst (run_live (qr_step Pt halton) s (map snd ins)), snd (run_live (qr_step Pt halton) s (map snd ins))).
Proof. apply restart_equiv_eq. apply qr_load_dump. Qed.

(* ---------- eagle pool *)
Theorem pool_load_dump Fly (p : pool Fly) : pool_load (pool_dump false p) = Some p.
Proof.
  induction p as [|[k f] p IH]; simpl; [reflexivity|].
  unfold pool_dump in IH. simpl in IH. rewrite py_int_str, IH.
  destruct (Z.ltb_spec (Z.of_N k) 0); [lia|]. rewrite N2Z.id. reflexivity.
Qed.

(* sorting the keys on the way out restores a different dict order *)
Theorem pool_sort_keys_refuted : exists p : pool nat, pool_load (pool_dump true p) <> Some p.
Proof. exists [(2%N, 7%nat); (1%N, 9%nat)]. vm_compute. discriminate. Qed.

(* ---------- evolutionary template *)
Theorem evo_load_dump Pop (s : evo_st Pop) : evo_load (evo_dump true s) = Some s.
Proof.
  destruct s as [p n]. unfold evo_load, evo_dump. simpl. rewrite py_int_str.
  destruct (Z.ltb_spec (Z.of_N n) 0); [lia|]. rewrite N2Z.id. reflexivity.
Qed.

Theorem evo_restarts_same Pop Trial (select : Pop -> list Trial -> Pop) fsa ins s :
  run_restarts (evo_step select fsa) (evo_dump true) evo_load s ins =
  Some (fst (run_live (evo_step select fsa) s (map snd ins)), snd (run_live (evo_step select fsa) s (map snd ins))).
Proof. apply restart_equiv_eq. apply evo_load_dump. Qed.

(* the dump without the counter (the code before the repair): a restart after the sampling phase falls back into it *)
Theorem evo_without_counter_refuted :
  exists ins : list (bool * list unit),
    option_map fst (run_restarts (evo_step (fun (p : unit) _ => p) 2) (evo_dump false) evo_load {| e_pop := tt; e_seen := 0 |} ins)
    <> Some (fst (run_live (evo_step (fun (p : unit) _ => p) 2) {| e_pop := tt; e_seen := 0 |} (map snd ins))).
Proof. exists [(false, [tt; tt]); (true, [])]. vm_compute. discriminate. Qed.

(* ---------- CMA-ES *)
Theorem cma_load_dump Opt Row (s : cma_st Opt Row) : cma_load (cma_dump true s) = Some s.
Proof. destruct s; reflexivity. Qed.

Theorem cma_restarts_same Opt Row tell ask pop ins (s : cma_st Opt Row) :
  run_restarts (cma_step tell ask pop) (cma_dump true) cma_load s ins =
  Some (fst (run_live (cma_step tell ask pop) s (map snd ins)), snd (run_live (cma_step tell ask pop) s (map snd ins))).
Proof. apply restart_equiv_eq. apply cma_load_dump. Qed.

(* without the queue (the code before the repair) completed trials are lost *)
Theorem cma_without_queue_refuted :
  exists ins : list (bool * (nat * list nat)),
    let tell := fun (o : list (list nat)) q => o ++ [q] in
    let ask := fun (o : list (list nat)) (n : nat) => (o, @nil nat) in
    option_map (fun r => c_opt (snd r))
      (run_restarts (cma_step tell ask 2) (cma_dump false) cma_load {| c_opt := []; c_queue := [] |} ins)
    <> Some (c_opt (snd (run_live (cma_step tell ask 2) {| c_opt := []; c_queue := [] |} (map snd ins)))).
Proof. exists [(false, (1%nat, [1%nat])); (true, (1%nat, [2%nat]))]. vm_compute. discriminate. Qed.

(* ---------- arrays as nested lists *)
Theorem unchunks_chunks A w : forall rows (l : list A), length l = (w * rows)%nat -> unchunks (chunks w rows l) = l.
Proof.
  induction rows as [|r IH]; intros l Hl; simpl.
  - destruct l; [reflexivity|simpl in Hl; lia].
  - unfold unchunks in *. simpl. rewrite IH.
    + apply firstn_skipn.
    + rewrite skipn_length. lia.
Qed.

Theorem chunks_shape A w : forall rows (l : list A), length l = (w * rows)%nat ->
  length (chunks w rows l) = rows /\ Forall (fun row => length row = w) (chunks w rows l).
Proof.
  induction rows as [|r IH]; intros l Hl; simpl; [split; constructor|].
  destruct (IH (skipn w l)) as [H1 H2]; [rewrite skipn_length; lia|].
  split; [lia|]. constructor; [|assumption]. rewrite firstn_length. lia.
Qed.
