(* Namespace.encode / _parse as regenerated from the source are the model's encode / parse *)
From VZ Require Import Base.Prelude Model.Namespace Model.NamespaceIR Gen.NamespaceSrc.
Import ListNotations.

Lemma src_split : forall s cur, split_on src_sep cur s = split_aux cur s.
Proof. induction s as [|x t IH]; intros cur; cbn; [reflexivity|]. rewrite !IH. reflexivity. Qed.

Lemma src_loop : forall frags join out, loop src_sep src_esc src_branches join out frags = pgo join out frags.
Proof.
  induction frags as [|f fs IH]; intros join out; [reflexivity|].
  cbn [loop pgo]. unfold src_branches. cbn [first_branch test_holds].
  change (ends_with src_esc f) with (ends_bs f).
  destruct join, (ends_bs f); cbn [andb]; try (destruct out as [|o os]; [reflexivity|]); rewrite IH; reflexivity.
Qed.

Theorem src_parse_is_parse : forall arg, parse_of src_sep src_esc src_prologue src_branches arg = parse arg.
Proof.
  intros [|x t]; [reflexivity|]. unfold parse_of, parse, split_colon. cbn [src_prologue pro_strip_one_leading_sep andb].
  rewrite src_loop, src_split. reflexivity.
Qed.

Lemma src_translate : forall c, translate src_escape_table c = escape c.
Proof.
  induction c as [|x t IH]; [reflexivity|]. cbn [translate escape]. unfold src_escape_table at 1. cbn [lookup].
  change (58%N) with COLON. destruct (N.eqb x COLON); rewrite IH; reflexivity.
Qed.
Theorem src_encode_is_encode : forall ns, encode_of src_sep src_escape_table ns = encode ns.
Proof. induction ns as [|c t IH]; [reflexivity|]. cbn [encode_of encode]. rewrite src_translate, IH. reflexivity. Qed.
