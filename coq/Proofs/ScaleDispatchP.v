From Coq Require Import QArith List Bool Lia.
Import ListNotations.
From VZ Require Import Model.ScaleDispatch.

(* facts about the documented dispatch; the source is tied to it by equality of the regenerated step list *)

Lemma zero_width_shifts : forall lo s, dispatch model_dispatch true true lo lo s = OShiftHalf.
Proof.
  intros lo s. unfold dispatch, model_dispatch; simpl.
  assert (H : Qeq_bool lo lo = true) by (apply Qeq_bool_iff; reflexivity).
  rewrite H. reflexivity.
Qed.

Lemma Qeq_bool_false_of_lt : forall a b, a < b -> Qeq_bool a b = false.
Proof.
  intros a b H. destruct (Qeq_bool a b) eqn:E; [|reflexivity].
  apply Qeq_bool_iff in E. rewrite E in H. exfalso. exact (Qlt_irrefl _ H).
Qed.

Lemma Qle_bool_false_of_gt : forall a, 0 < a -> Qle_bool a 0 = false.
Proof.
  intros a H. destruct (Qle_bool a 0) eqn:E; [|reflexivity].
  apply Qle_bool_iff in E. exfalso. exact (Qlt_irrefl _ (Qlt_le_trans _ _ _ H E)).
Qed.

(* positive non-degenerate range, not the unit range: the formula is the one of the scale type *)
Lemma formula_follows_scale : forall lo hi s, 0 < lo -> lo < hi ->
  dispatch model_dispatch true true lo hi s = OScale (kind_of_scale s).
Proof.
  intros lo hi s Hlo Hlt. unfold dispatch, model_dispatch; simpl.
  rewrite (Qeq_bool_false_of_lt _ _ Hlt).
  assert (Hhi : 0 < hi) by (eapply Qlt_trans; eauto).
  unfold nonpositive. rewrite (Qle_bool_false_of_gt _ Hlo), (Qle_bool_false_of_gt _ Hhi).
  assert (Hz : Qeq_bool lo 0 = false).
  { destruct (Qeq_bool lo 0) eqn:E; [|reflexivity]. apply Qeq_bool_iff in E. rewrite E in Hlo. exfalso. exact (Qlt_irrefl _ Hlo). }
  destruct s; simpl; try reflexivity; rewrite Hz; rewrite andb_false_r; reflexivity.
Qed.

(* a log-type scale over a range that touches zero or below is refused, never scaled *)
Lemma log_refuses_nonpositive : forall lo hi s, lo < hi -> lo <= 0 -> (s = SLog \/ s = SReverseLog) ->
  dispatch model_dispatch true true lo hi s = ORefuse.
Proof.
  intros lo hi s Hlt Hle Hs. unfold dispatch, model_dispatch; simpl.
  rewrite (Qeq_bool_false_of_lt _ _ Hlt).
  assert (H : Qle_bool lo 0 = true) by (apply Qle_bool_iff; exact Hle).
  unfold nonpositive. rewrite H. destruct Hs as [-> | ->]; reflexivity.
Qed.

(* continuify keeps every scale type that names a formula *)
Lemma continuify_keeps_formula : forall s, kind_of_scale (model_continuify_scale s) = kind_of_scale s.
Proof. intros s. destruct s; reflexivity. Qed.

Lemma continuified_formula : forall lo hi s, 0 < lo -> lo < hi ->
  dispatch model_dispatch true true lo hi (model_continuify_scale s) = OScale (kind_of_scale s).
Proof.
  intros lo hi s H1 H2. rewrite formula_follows_scale by assumption.
  f_equal. apply continuify_keeps_formula.
Qed.

Lemma not_continuous_identity : forall fw lo hi s, dispatch model_dispatch false fw lo hi s = OIdentity.
Proof. intros. reflexivity. Qed.

Lemma nonfinite_width_refused : forall lo hi s, dispatch model_dispatch true false lo hi s = ORefuse.
Proof. intros. reflexivity. Qed.
