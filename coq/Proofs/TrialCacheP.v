From VZ Require Import Base.Prelude Model.TrialCache.

Lemma mem_In i l : mem i l = true <-> In i l.
Proof. unfold mem. rewrite existsb_exists. split; [intros (x & H & E); apply Nat.eqb_eq in E; subst; auto|intros; exists i; split; auto; apply Nat.eqb_refl]. Qed.
Lemma mem_false i l : mem i l = false <-> ~ In i l.
Proof. rewrite <- mem_In. destruct (mem i l); split; congruence. Qed.

Lemma NoDup_app_intro_local {A} (a b : list A) : NoDup a -> NoDup b -> (forall x, In x a -> In x b -> False) -> NoDup (a ++ b).
Proof.
  induction a as [|x a IH]; simpl; intros Ha Hb Hd; auto. inversion Ha; subst. constructor.
  - rewrite in_app_iff. intros [H|H]; [auto|]. apply (Hd x); auto.
  - apply IH; auto. intros y Hy. apply Hd. auto.
Qed.

(* the world as a request sees it *)
Definition world_ok (maxid : nat) (trials : list tinfo) : Prop :=
  NoDup (map ti_id trials) /\ (forall t, In t trials -> 1 <= ti_id t <= maxid).
Definition inc_ok (inc : list nat) (maxid : nat) : Prop :=
  NoDup inc /\ (forall i, In i inc -> 1 <= i <= maxid).

Lemma full_when_len_eq inc maxid : inc_ok inc maxid -> length inc = maxid -> forall i, 1 <= i <= maxid -> In i inc.
Proof.
  intros [Hnd Hr] Hl i Hi.
  assert (incl (seq 1 maxid) inc).
  { apply NoDup_length_incl; auto.
    - rewrite seq_length. lia.
    - intros x Hx. apply in_seq. specialize (Hr x Hx). lia. }
  apply H. apply in_seq. lia.
Qed.

Lemma in_load i inc maxid : In i (filter (fun i => negb (mem i inc)) (seq 1 maxid)) <-> (1 <= i <= maxid /\ ~ In i inc).
Proof. rewrite filter_In, in_seq, negb_true_iff, mem_false. split; intros [H1 H2]; split; auto; lia. Qed.

(* what one call delivers: exactly the completed trials not yet incorporated; afterwards all completed are incorporated *)
Lemma newly_spec inc maxid trials d inc' :
  world_ok maxid trials -> inc_ok inc maxid -> newly inc maxid trials = (d, inc') ->
  (forall i, In i d <-> (In i (completeds trials) /\ ~ In i inc)) /\
  (forall i, In i inc' <-> (In i inc \/ In i d)) /\ NoDup d /\ inc_ok inc' maxid.
Proof.
  intros [Hnd Hr] Hinc. unfold newly. destruct (Nat.eqb_spec (length inc) maxid) as [Hl|Hl].
  - intros [= <- <-]. split; [|split; [|split]]; auto.
    + intros i. split; [intros []|]. intros [Hc Hn]. exfalso. apply Hn.
      apply (full_when_len_eq inc maxid Hinc Hl). unfold completeds in Hc. apply in_map_iff in Hc.
      destruct Hc as (t & <- & Ht). apply filter_In in Ht. apply Hr. tauto.
    + intros i. simpl. tauto.
    + constructor.
  - intros [= <- <-].
    assert (Hd : forall i, In i (map ti_id (filter (fun t => ti_completed t && mem (ti_id t) (filter (fun i0 => negb (mem i0 inc)) (seq 1 maxid))) trials))
                   <-> (In i (completeds trials) /\ ~ In i inc)).
    { intros i. unfold completeds. rewrite !in_map_iff. split.
      - intros (t & <- & Ht). apply filter_In in Ht. destruct Ht as [Hin Hb]. apply andb_prop in Hb. destruct Hb as [Hc Hm].
        apply mem_In, in_load in Hm. split; [exists t; split; auto; apply filter_In; auto|tauto].
      - intros [(t & <- & Ht) Hn]. apply filter_In in Ht. destruct Ht as [Hin Hc]. exists t. split; auto.
        apply filter_In. split; auto. rewrite Hc. simpl. apply mem_In, in_load. split; auto. }
    assert (Hndd : NoDup (map ti_id (filter (fun t => ti_completed t && mem (ti_id t) (filter (fun i0 => negb (mem i0 inc)) (seq 1 maxid))) trials))).
    { clear -Hnd. induction trials as [|t r IH]; simpl; [constructor|]. inversion Hnd; subst.
      destruct (_ && _); simpl; auto. constructor; auto. intros Hin. apply H1. apply in_map_iff in Hin.
      destruct Hin as (x & E & Hx). apply filter_In in Hx. apply in_map_iff. exists x. tauto. }
    split; [exact Hd|]. split; [intros i; rewrite in_app_iff; tauto|]. split; [exact Hndd|].
    destruct Hinc as [Hi1 Hi2]. split.
    + apply NoDup_app_intro_local; auto. intros x Hx Hx2. apply Hd in Hx2. tauto.
    + intros i Hi. apply in_app_iff in Hi. destruct Hi as [Hi|Hi]; auto. apply Hd in Hi. destruct Hi as [Hc _].
      unfold completeds in Hc. apply in_map_iff in Hc. destruct Hc as (t & <- & Ht). apply filter_In in Ht. apply Hr. tauto.
Qed.

(* ---- histories: a sequence of requests; guard = max_trial_id never decreases (the newest trial is never deleted) *)
Fixpoint hist_ok (m : nat) (rqs : list request) : Prop :=
  match rqs with
  | [] => True
  | rq :: rest => m <= fst rq /\ world_ok (fst rq) (snd rq) /\ hist_ok (fst rq) rest
  end.

Definition kept (rqs : list request) : list (bool * request) := map (fun rq => (false, rq)) rqs.

Lemma inc_ok_mono inc m m' : inc_ok inc m -> m <= m' -> inc_ok inc m'.
Proof. intros [H1 H2] Hm. split; auto. intros i Hi. specialize (H2 i Hi). lia. Qed.

Lemma serve_all_cons inc rq rest d inc' : newly inc (fst rq) (snd rq) = (d, inc') ->
  serve_all inc ((false, rq) :: rest) = (d, actives (snd rq)) :: serve_all inc' rest.
Proof. intros E. cbn [serve_all]. unfold serve. rewrite E. reflexivity. Qed.

Lemma serve_all_inv : forall rqs inc m, inc_ok inc m -> hist_ok m rqs ->
  let outs := serve_all inc (kept rqs) in
  length outs = length rqs /\
  (forall k rq out, nth_error rqs k = Some rq -> nth_error outs k = Some out ->
      (forall i, In i (fst out) -> In i (completeds (snd rq))) /\ snd out = actives (snd rq)) /\
  (forall i, In i (concat (map fst outs)) -> ~ In i inc) /\
  NoDup (concat (map fst outs)) /\
  (forall k rq, nth_error rqs k = Some rq -> forall i, In i (completeds (snd rq)) ->
      In i inc \/ In i (concat (map fst (firstn (S k) outs)))).
Proof.
  induction rqs as [|[mx tr] rest IH]; intros inc m Hinc Hh.
  - simpl. split; [reflexivity|]. split; [intros k rq out Hk; destruct k; discriminate|].
    split; [intros i []|]. split; [constructor|]. intros k rq Hk; destruct k; discriminate.
  - destruct Hh as (Hm & Hw & Hrest). cbn [fst snd] in *.
    assert (Hinc' : inc_ok inc mx) by (eapply inc_ok_mono; eauto).
    destruct (newly inc mx tr) as [d inc'] eqn:En.
    destruct (newly_spec inc mx tr d inc' Hw Hinc' En) as (Hd & Hi' & Hndd & Hok').
    change (kept ((mx, tr) :: rest)) with ((false, (mx, tr)) :: kept rest). rewrite (serve_all_cons inc (mx, tr) (kept rest) d inc' En). cbn [snd].
    specialize (IH inc' mx Hok' Hrest). cbn zeta in IH.
    destruct IH as (IHl & IHsub & IHfresh & IHnd & IHall).
    cbn zeta. split; [cbn [length]; f_equal; exact IHl|]. split; [|split; [|split]].
    + intros k rq out Hk Ho. destruct k as [|k]; simpl in Hk, Ho.
      * injection Hk as <-. injection Ho as <-. cbn [fst snd]. split; auto. intros i Hi. apply Hd in Hi. tauto.
      * eapply IHsub; eauto.
    + intros i Hi. cbn [map concat fst] in Hi. apply in_app_iff in Hi. destruct Hi as [Hi|Hi].
      * apply Hd in Hi. tauto.
      * intros Hin. apply (IHfresh i Hi). apply Hi'. auto.
    + cbn [map concat fst]. apply NoDup_app_intro_local; auto.
      intros x Hx Hx2. apply (IHfresh x Hx2). apply Hi'. auto.
    + intros k rq Hk i Hc. destruct k as [|k]; simpl in Hk.
      * injection Hk as <-. cbn [snd] in Hc. cbn [firstn map concat fst]. rewrite app_nil_r.
        destruct (in_dec Nat.eq_dec i inc) as [Hin|Hnin]; auto. right. apply Hd. auto.
      * destruct (IHall k rq Hk i Hc) as [Hin|Hin].
        -- apply Hi' in Hin. destruct Hin; auto. right. cbn [firstn map concat fst]. apply in_app_iff. auto.
        -- right. cbn [firstn map concat fst]. apply in_app_iff. auto.
Qed.

(* exactly once, from an empty cache *)
Lemma exactly_once rqs : hist_ok 0 rqs ->
  let outs := serve_all [] (kept rqs) in
  NoDup (concat (map fst outs)) /\
  (forall k rq, nth_error rqs k = Some rq -> forall i, In i (completeds (snd rq)) ->
      In i (concat (map fst (firstn (S k) outs)))) /\
  (forall k rq out, nth_error rqs k = Some rq -> nth_error outs k = Some out ->
      (forall i, In i (fst out) -> In i (completeds (snd rq))) /\ snd out = actives (snd rq)).
Proof.
  intros Hh. assert (H0 : inc_ok [] 0) by (split; [constructor|intros i []]).
  destruct (serve_all_inv rqs [] 0 H0 Hh) as (_ & Hsub & _ & Hnd & Hall). cbn zeta.
  split; auto. split; auto. intros k rq Hk i Hc. destruct (Hall k rq Hk i Hc) as [[]|H]; auto.
Qed.

(* without the guard the statement is false: ids 4 and 5 are deleted, 3 completes afterwards and is never delivered *)
Definition bad_hist : list request :=
  [(5, [mkTI 1 true false; mkTI 2 true false; mkTI 3 false true; mkTI 4 false true; mkTI 5 true false]);
   (3, [mkTI 1 true false; mkTI 2 true false; mkTI 3 true false])].
Lemma never_delivered : ~ In 3 (concat (map fst (serve_all [] (kept bad_hist)))).
Proof. vm_compute. intuition discriminate. Qed.

Ltac nodup_nat := repeat (constructor; [simpl; intuition discriminate|]); constructor.
Lemma bad_hist_worlds :
  (fix ok (rqs : list request) := match rqs with [] => True | rq :: r => world_ok (fst rq) (snd rq) /\ ok r end) bad_hist.
Proof.
  unfold bad_hist, world_ok. cbn [fst snd map ti_id]. split; [split|split; [split|exact I]].
  - nodup_nat.
  - intros t Hin. simpl in Hin. repeat (destruct Hin as [<-|Hin]; [simpl; lia|]). destruct Hin.
  - nodup_nat.
  - intros t Hin. simpl in Hin. repeat (destruct Hin as [<-|Hin]; [simpl; lia|]). destruct Hin.
Qed.
