From VZ Require Import Base.Prelude Model.SqlShape.

Scheme sh_ind2 := Induction for sh Sort Prop with blk_ind2 := Induction for blk Sort Prop.
Combined Scheme sh_blk_ind from sh_ind2, blk_ind2.

Lemma run_evs_app t1 t2 a : run_evs (t1 ++ t2) a = run_evs t2 (run_evs t1 a).
Proof. unfold run_evs. apply fold_left_app. Qed.

Lemma res_eqb_eq x y : res_eqb x y = true -> x = y.
Proof. destruct x as [s a], y as [s' a']. unfold res_eqb. simpl. destruct s, s', a, a'; simpl; congruence. Qed.
Lemma res_eqb_refl x : res_eqb x x = true.
Proof. destruct x as [s a]. destruct s, a; reflexivity. Qed.
Lemma memr_In x l : memr x l = true <-> In x l.
Proof.
  unfold memr. rewrite existsb_exists. split.
  - intros (y & Hy & E). apply res_eqb_eq in E. subst. exact Hy.
  - intros H. exists x. split; auto. apply res_eqb_refl.
Qed.
Lemma subset_incl a b : subset a b = true -> incl a b.
Proof. unfold subset. rewrite forallb_forall. intros H x Hx. apply memr_In. auto. Qed.

Lemma bind_falls_spec f l : forall R, bind_falls l f = Some R ->
  (forall r, In r l -> is_falls r = false -> In r R) /\
  (forall r, In r l -> is_falls r = true -> exists X, f (snd r) = Some X /\ incl X R).
Proof.
  induction l as [|r t IH]; intros R H; simpl in H.
  - injection H as <-. split; intros r [].
  - destruct (bind_falls t f) as [rest|] eqn:E; [|discriminate]. destruct (IH rest eq_refl) as [I1 I2].
    destruct (is_falls r) eqn:Er.
    + destruct (f (snd r)) as [X|] eqn:Ef; [|discriminate]. injection H as <-. split.
      * intros r' [->|Hin] Hf; [congruence|]. apply in_or_app. right. auto.
      * intros r' [->|Hin] Hf.
        -- exists X. split; auto. intros x Hx. apply in_or_app. auto.
        -- destruct (I2 r' Hin Hf) as (X' & E1 & E2). exists X'. split; auto. intros x Hx. apply in_or_app. right. auto.
    + injection H as <-. split.
      * intros r' [->|Hin] Hf; [left; auto|right; auto].
      * intros r' [->|Hin] Hf; [congruence|]. destruct (I2 r' Hin Hf) as (X' & E1 & E2). exists X'. split; auto.
        intros x Hx. right. auto.
Qed.

Lemma bind_dberr_spec f l : forall R, bind_dberr l f = Some R ->
  (forall r, In r l -> is_dberr r = true -> exists X, f (snd r) = Some X /\ incl X R).
Proof.
  induction l as [|r t IH]; intros R H; simpl in H.
  - intros r [].
  - destruct (bind_dberr t f) as [rest|] eqn:E; [|discriminate]. specialize (IH rest eq_refl).
    destruct (is_dberr r) eqn:Er.
    + destruct (f (snd r)) as [X|] eqn:Ef; [|discriminate]. injection H as <-.
      intros r' [->|Hin] Hf.
      * exists X. split; auto. intros x Hx. apply in_or_app. auto.
      * destruct (IH r' Hin Hf) as (X' & E1 & E2). exists X'. split; auto. intros x Hx. apply in_or_app. right. auto.
    + injection H as <-. intros r' [->|Hin] Hf; [congruence|]. auto.
Qed.

Lemma loop_iter_spec f : forall fuel acc R, loop_iter f fuel acc = Some R ->
  incl acc R /\ (forall a', In (Falls, a') R -> exists X, f a' = Some X /\ incl X R).
Proof.
  induction fuel as [|fuel IH]; intros acc R H; simpl in H; [discriminate|].
  destruct (bind_falls acc f) as [nxt|] eqn:E; [|discriminate].
  destruct (subset nxt acc) eqn:Es.
  - injection H as <-. split; [apply incl_refl|]. intros a' Hin.
    destruct (bind_falls_spec f acc nxt E) as [_ I2]. destruct (I2 (Falls, a') Hin eq_refl) as (X & E1 & E2).
    exists X. split; auto. intros x Hx. apply (subset_incl _ _ Es). auto.
  - destruct (IH _ _ H) as [I1 I2]. split; auto. intros x Hx. apply I1. apply in_or_app. auto.
Qed.

(* the loop as a star of its body *)
Inductive star (body : blk) : list ev -> stop -> Prop :=
| st_0 : star body [] Falls
| st_s t1 t2 s : execs body t1 Falls -> star body t2 s -> star body (t1 ++ t2) s
| st_stop t s : execs body t s -> s <> Falls -> star body t s.

Lemma exec_loop_star x t s : exec x t s -> forall body, x = SLoop body -> star body t s.
Proof.
  induction 1; intros body0 E; try discriminate; injection E as ->.
  - constructor.
  - eapply st_s; eauto.
  - eapply st_stop; eauto.
Qed.

Definition sound_sh (x : sh) : Prop := forall t s, exec x t s -> forall a R, post x a = Some R -> In (s, run_evs t a) R.
Definition sound_blk (l : blk) : Prop := forall t s, execs l t s -> forall a R, posts l a = Some R -> In (s, run_evs t a) R.

Lemma soundness : (forall x, sound_sh x) /\ (forall l, sound_blk l).
Proof.
  apply sh_blk_ind; unfold sound_sh, sound_blk.
  - intros t s H a R E. inversion H; subst. injection E as <-. simpl. auto.
  - intros t s H a R E. inversion H; subst; injection E as <-; simpl; auto.
  - intros t s H a R E. inversion H; subst; injection E as <-; simpl; auto.
  - intros t s H a R E. inversion H; subst. injection E as <-. simpl. auto.
  - intros t s H a R E. inversion H; subst. injection E as <-. simpl. auto.
  - intros t s H a R E. inversion H; subst. injection E as <-. simpl. auto.
  - intros t s H a R E. inversion H; subst. injection E as <-. simpl. auto.
  - (* SIf *) intros p IHp q IHq t s H a R E. cbn [post] in E.
    destruct (posts p a) as [X|] eqn:Ep; [|discriminate]. destruct (posts q a) as [Y|] eqn:Eq; [|discriminate].
    injection E as <-. apply in_or_app. inversion H; subst; [left; eapply IHp; eauto|right; eapply IHq; eauto].
  - (* SLoop *) intros body IHb t s H a R E. cbn [post] in E.
    destruct (loop_iter_spec _ _ _ _ E) as [Hacc Hclosed].
    pose proof (exec_loop_star _ _ _ H body eq_refl) as Hs. clear H.
    assert (G : forall a', In (Falls, a') R -> In (s, run_evs t a') R); [|apply G; apply Hacc; left; reflexivity].
    induction Hs as [|t1 t2 s H1 Hs IH|t s H1 Hne]; intros a' Hin.
    + exact Hin.
    + rewrite run_evs_app. apply IH. destruct (Hclosed a' Hin) as (X & EX & HX). apply HX. eapply IHb; eauto.
    + destruct (Hclosed a' Hin) as (X & EX & HX). apply HX. eapply IHb; eauto.
  - (* STry *) intros body IHb h IHh t s H a R E. cbn [post] in E.
    destruct (posts body a) as [rb|] eqn:Eb; [|discriminate].
    destruct (bind_dberr rb (posts h)) as [c|] eqn:Ec; [|discriminate]. injection E as <-. apply in_or_app.
    inversion H; subst.
    + left. eapply IHb; eauto.
    + right. match goal with Hx : execs body _ DbError |- _ => pose proof (IHb _ _ Hx a rb Eb) as Hin end.
      destruct (bind_dberr_spec _ _ _ Ec _ Hin eq_refl) as (X & EX & HX). apply HX. rewrite run_evs_app.
      eapply IHh; eauto.
  - (* bnil *) intros t s H a R E. inversion H; subst. injection E as <-. simpl. auto.
  - (* bcons *) intros x IHx r IHr t s H a R E. cbn [posts] in E.
    destruct (post x a) as [ry|] eqn:Ey; [|discriminate].
    destruct (bind_falls_spec _ _ _ E) as [I1 I2]. inversion H; subst.
    + match goal with Hx : exec x _ Falls |- _ => pose proof (IHx _ _ Hx a ry Ey) as Hin end.
      destruct (I2 _ Hin eq_refl) as (X & EX & HX).
      apply HX. rewrite run_evs_app. eapply IHr; eauto.
    + match goal with Hx : exec x _ _ |- _ => pose proof (IHx _ _ Hx a ry Ey) as Hin end.
      apply I1; auto. destruct s; try reflexivity. congruence.
Qed.

Lemma shape_ok_sound l : shape_ok l = true -> forall t s, execs l t s -> ok_end s (run_evs t Cl) = true.
Proof.
  unfold shape_ok. destruct (posts l Cl) as [rs|] eqn:E; [|discriminate]. intros Hall t s H.
  rewrite forallb_forall in Hall. apply (Hall (s, run_evs t Cl)). destruct soundness as [_ Sb]. eapply Sb; eauto.
Qed.

(* ---- what a good trace means for durability *)
Definition rel (a : ast) (c : nat * nat) : Prop :=
  match a with Cl => c = (0, 0) | Di => fst c = 0 /\ snd c > 0 | Co => snd c = 0 | Bd => True end.

Lemma bd_absorbs t : run_evs t Bd = Bd.
Proof. induction t as [|e t IH]; simpl; auto. destruct e; exact IH. Qed.

Lemma after_commit_stable t : forall d, run_evs t Co <> Bd -> fst (fold_left dstep t (d, 0)) = d /\ snd (fold_left dstep t (d, 0)) = 0.
Proof.
  induction t as [|e t IH]; intros d H; simpl; auto. destruct e; simpl in *.
  - exfalso. apply H. apply bd_absorbs.
  - replace (d + 0) with d by lia. apply IH; auto.
  - apply IH; auto.
Qed.

Lemma prefix_durable t : forall a c, rel a c -> run_evs t a <> Bd -> run_evs t a <> Di ->
  forall n, fst (fold_left dstep (firstn n t) c) = fst c \/ fst (fold_left dstep (firstn n t) c) = fst (fold_left dstep t c).
Proof.
  induction t as [|e t IH]; intros a c Hr H1 H2 n.
  - destruct n; simpl; auto.
  - destruct n as [|n]; [simpl; auto|]. cbn [firstn fold_left].
    assert (Hr' : rel (step_ev a e) (dstep c e)).
    { clear -Hr. destruct c as [d p]. destruct a, e; cbn [rel step_ev dstep fst snd] in *; auto; try lia; try (injection Hr as -> ->; auto; lia); try (destruct Hr as [-> ?]; reflexivity). }
    destruct (IH (step_ev a e) (dstep c e) Hr' H1 H2 n) as [E|E]; [|right; exact E].
    rewrite E. destruct e; simpl; auto.
    (* EC: the commit point *)
    destruct c as [d p]. cbn [fst snd]. destruct a; cbn [rel fst snd] in Hr.
    + injection Hr as -> ->. left. reflexivity.
    + destruct Hr as [-> Hp]. right. cbn [run_evs fold_left step_ev] in H1. fold (run_evs t Co) in H1.
      destruct (after_commit_stable t (0 + p) H1) as [E1 _]. rewrite E1. reflexivity.
    + subst p. left. lia.
    + exfalso. apply H1. cbn [run_evs fold_left step_ev]. apply bd_absorbs.
Qed.

(* a call whose trace ends in a good state is crash-atomic: whatever prefix of its SQL activity has happened when the
   process dies, the durable content is that before the call or that after the complete call *)
Lemma crash_atomic t : (run_evs t Cl = Cl \/ run_evs t Cl = Co) ->
  forall n, durable (firstn n t) = 0 \/ durable (firstn n t) = durable t.
Proof.
  intros H n. unfold durable, dstate.
  apply (prefix_durable t Cl (0, 0) eq_refl); destruct H as [H|H]; rewrite H; discriminate.
Qed.

Lemma rel_run t : forall a c, rel a c -> rel (run_evs t a) (fold_left dstep t c).
Proof.
  induction t as [|e t IH]; intros a c Hr; simpl; auto. apply IH.
  clear -Hr. destruct c as [d p]. destruct a, e; cbn [rel step_ev dstep fst snd] in *; auto; try lia; try (injection Hr as -> ->; auto; lia); try (destruct Hr as [-> ?]; reflexivity).
Qed.

(* a call that ends clean (raised, or read-only) has changed nothing durable; one that ends committed has nothing pending *)
Lemma clean_end_no_change t : run_evs t Cl = Cl -> dstate t = (0, 0).
Proof. intros H. pose proof (rel_run t Cl (0, 0) eq_refl) as R. rewrite H in R. exact R. Qed.
Lemma committed_end_nothing_pending t : run_evs t Cl = Co -> snd (dstate t) = 0.
Proof. intros H. pose proof (rel_run t Cl (0, 0) eq_refl) as R. rewrite H in R. exact R. Qed.
