(* C09: a well-formed vz.Trial survives TrialConverter.to_proto / from_proto as an equal object. *)
From VZ Require Import Base.Prelude Model.Wire Gen.EnumMaps Model.WireConv Model.WireTrial Proofs.WireP.
From Coq Require Import Lia QArith.

Lemma none_if_or_empty o : o <> Some [] -> none_if_empty (or_empty o) = o.
Proof. destruct o as [[|c s]|]; simpl; intros H; try reflexivity. congruence. Qed.

Lemma pv_roundtrip v : exists v', pv_from_proto (pv_to_proto v) = Some v' /\ pv_eqv v v'.
Proof.
  destruct v as [q|z|b|s]; cbn [pv_to_proto pv_from_proto]; eexists; (split; [reflexivity|]); unfold pv_eqv; cbn [pv_num];
    try reflexivity.
Qed.

Lemma has_dup_nodup l : NoDup l -> has_dup l = false.
Proof.
  induction 1 as [|x r Hx Hr IH]; simpl; [reflexivity|]. rewrite IH, orb_false_r.
  apply not_true_is_false. intros H. apply existsb_exists in H. destruct H as [y [Hy He]]. apply str_eqb_eq in He. subst y. contradiction.
Qed.

Lemma params_roundtrip ps :
  let back := flat_map (fun nv => match pv_from_proto (snd nv) with Some v => [(fst nv, v)] | None => [] end)
                       (map (fun nv : str * pv => (fst nv, pv_to_proto (snd nv))) ps) in
  map fst back = map fst ps /\ Forall2 (fun a b => fst b = fst a /\ pv_eqv (snd a) (snd b)) ps back.
Proof.
  induction ps as [|[n v] r IH]; cbn [map flat_map]; [split; [reflexivity|constructor]|].
  destruct IH as [IH1 IH2]. cbn [fst snd]. destruct (pv_roundtrip v) as [v' [Hv He]]. rewrite Hv. cbn [app map fst].
  split; [rewrite IH1; reflexivity|]. constructor; [split; [reflexivity|exact He]|exact IH2].
Qed.

Lemma time_roundtrip t : time_from_proto (time_to_proto t) = t.
Proof. destruct t as [s u]. unfold time_from_proto, time_to_proto. cbn [fst snd]. rewrite Z.div_mul by lia. reflexivity. Qed.

Lemma status_states t :
  let st := tstatus_to_proto (pt_status t) (is_some (pt_infeasible t)) in
  N.eqb st ST_REQUESTED = (match pt_status t with PyRequested => true | _ => false end) /\
  N.eqb st ST_STOPPING = (match pt_status t with PyStopping => true | _ => false end) /\
  N.eqb st ST_INFEASIBLE = (match pt_status t with PyTCompleted => is_some (pt_infeasible t) | _ => false end) /\
  N.eqb st ST_SUCCEEDED = (match pt_status t with PyTCompleted => negb (is_some (pt_infeasible t)) | _ => false end).
Proof.
  unfold pt_status. destruct (pt_final t), (pt_infeasible t), (pt_stopping t), (pt_requested t); vm_compute; repeat split.
Qed.

Theorem trial_roundtrip t : wf_trial t ->
  exists t', trial_from_proto (trial_to_proto t) = Some t' /\ trial_eqv t t'.
Proof.
  intros [Hd [Hw [Hnd [Hrq [Hcp [Hfin Hms]]]]]].
  unfold trial_from_proto. cbn [trial_to_proto rt_params rt_state rt_id rt_name rt_client rt_reason rt_final rt_meas rt_start rt_end].
  destruct (params_roundtrip (pt_params t)) as [Pn Pv]. cbv zeta in Pn, Pv. rewrite Pn, (has_dup_nodup _ Hnd).
  eexists. split; [reflexivity|].
  destruct (status_states t) as [S1 [S2 [S3 S4]]]. cbv zeta in S1, S2, S3, S4. rewrite S1, S2, S3, S4.
  unfold trial_eqv. cbn [pt_id pt_desc pt_worker pt_requested pt_infeasible pt_params pt_final pt_meas pt_created pt_completed].
  rewrite (none_if_or_empty _ Hd), (none_if_or_empty _ Hw).
  split; [reflexivity|]. split; [reflexivity|]. split; [reflexivity|].
  (* requested flag *)
  assert (Hreq : (match pt_status t with PyRequested => true | _ => false end) = pt_requested t).
  { destruct (pt_requested t) eqn:Er; [rewrite (Hrq eq_refl); reflexivity|].
    unfold pt_status. rewrite Er. destruct (is_some (pt_final t) || is_some (pt_infeasible t)), (is_some (pt_stopping t)); reflexivity. }
  split; [exact Hreq|].
  (* infeasibility reason *)
  assert (Hinf : (if match pt_status t with PyTCompleted => is_some (pt_infeasible t) | _ => false end
                  then Some (or_empty (pt_infeasible t)) else None) = pt_infeasible t).
  { unfold pt_status. destruct (pt_infeasible t) as [r|]; cbn [is_some or_empty]; [rewrite orb_true_r; reflexivity|].
    destruct (is_some (pt_final t) || false), (is_some (pt_stopping t)), (pt_requested t); reflexivity. }
  split; [exact Hinf|].
  split.
  { (* status *)
    unfold pt_status at 1. cbn [pt_final pt_infeasible pt_stopping pt_requested]. rewrite Hinf, Hreq.
    unfold pt_status. destruct (pt_final t) as [m|]; cbn [option_map is_some orb]; [reflexivity|].
    destruct (pt_infeasible t); cbn [is_some]; [reflexivity|].
    destruct (pt_stopping t); cbn [is_some]; [vm_compute; reflexivity|]. destruct (pt_requested t); reflexivity. }
  split; [exact Pv|].
  split.
  { destruct (pt_final t) as [m|]; cbn [option_map omeas_eqv]; [|exact I]. apply meas_roundtrip. apply Hfin. reflexivity. }
  split.
  { induction (pt_meas t) as [|m r IH]; cbn [map]; constructor; inversion Hms; subst; [apply meas_roundtrip; assumption|apply IH; assumption]. }
  split.
  { destruct (pt_created t) as [c|]; cbn [option_map]; [rewrite time_roundtrip|]; reflexivity. }
  destruct (pt_completed t) as [c|] eqn:Ec; cbn [option_map].
  - rewrite (Hcp ltac:(discriminate)). rewrite orb_comm. destruct (is_some (pt_infeasible t)); cbn [negb orb]; rewrite time_roundtrip; reflexivity.
  - destruct (_ || _); reflexivity.
Qed.

(* the unguarded statement is false: '' has no wire form *)
Definition trial_roundtrip_full : Prop := forall t, exists t', trial_from_proto (trial_to_proto t) = Some t' /\ trial_eqv t t'.
Theorem trial_roundtrip_full_refuted : ~ trial_roundtrip_full.
Proof.
  intros H. destruct (H (mkPT 1 (Some []) None false None None [] None [] None None)) as [t' [Hf He]].
  vm_compute in Hf. injection Hf as <-. destruct He as [_ [Hd _]]. discriminate Hd.
Qed.

Example trial_wf_nonvacuous :
  wf_trial (mkPT 3 (Some [100%N]) (Some [119%N]) false (Some [98%N]) (Some []) [([120%N], PvBool true); ([121%N], PvStr [])]
                 (Some (mkPM [([109%N], 0%Q)] (5 # 4) 2)) [mkPM [] 0 0] (Some (10, 500000)%Z) (Some (11, 0)%Z)).
Proof.
  unfold wf_trial. cbn. repeat split; try discriminate; try (intros; discriminate).
  - constructor; [intros [H|[]]; discriminate H|constructor; [intros []|constructor]].
  - intros m [= <-]. cbn. unfold Qle. simpl. lia.
  - constructor; [unfold Qle; simpl; lia|constructor].
Qed.
