(* C02: the sticky clause of SuggestTrials. *)
From VZ Require Import Base.Prelude Base.XFloat Model.Metadata Model.Service Proofs.WedgeP.
From Coq Require Import Lia.

(* ---------- C02: a worker that already holds enough ACTIVE trials gets exactly those again, nothing else changes *)
Lemma get_node_upd s k n n' : get_node k (nodes s) = Some n -> get_node k (nodes (upd s k n')) = Some n'.
Proof.
  unfold upd. cbn [nodes]. induction (nodes s) as [|[k0 n0] t IH]; simpl; [discriminate|].
  destruct (skey_eqb k0 k) eqn:E; simpl; rewrite E; [reflexivity|exact IH].
Qed.

Fixpoint numbered_from' (i : N) (l : list sop) : Prop :=
  match l with [] => True | o :: r => o_num o = i /\ numbered_from' (i + 1) r end.

Lemma numbered_lt l : forall i, numbered_from' i l -> forall o, In o l -> (i <= o_num o < i + N.of_nat (length l))%N.
Proof.
  induction l as [|x r IH]; intros i H o Ho; [destruct Ho|]. destruct H as [Hx Hr]. destruct Ho as [->|Ho].
  - simpl length. lia.
  - specialize (IH (i + 1)%N Hr o Ho). simpl length. lia.
Qed.

Lemma next_op_free c ops : numbered_from' 1 (filter (fun o => N.eqb (o_client o) c) ops) ->
  existsb (op_is c (N.of_nat (length (filter (fun o => N.eqb (o_client o) c) ops)) + 1)) ops = false.
Proof.
  intros H. apply not_true_is_false. intros Hex. apply existsb_exists in Hex. destruct Hex as [o [Ho Hk]].
  unfold op_is in Hk. apply andb_true_iff in Hk. destruct Hk as [Hc Hn]. apply N.eqb_eq in Hn.
  assert (Hin : In o (filter (fun o => N.eqb (o_client o) c) ops)) by (apply filter_In; auto).
  pose proof (numbered_lt _ 1 H o Hin). lia.
Qed.

Lemma existsb_app_last c num ops o : op_is c num o = true -> existsb (op_is c num) (ops ++ [o]) = true.
Proof. intros H. rewrite existsb_app. simpl. rewrite H. apply orb_true_iff. right. reflexivity. Qed.

Theorem sticky s k n c count po :
  get_node k (nodes s) = Some n -> immutable (n_study n) = false ->
  (forall o, In o (filter (fun o => N.eqb (o_client o) c) (n_ops n)) -> o_done o = true) ->
  numbered_from' 1 (filter (fun o => N.eqb (o_client o) c) (n_ops n)) ->
  (count <= length (filter (fun t => tstate_eqb (t_state t) ACTIVE && N.eqb (t_client t) c) (n_trials n)))%nat ->
  exists o s', step s (SuggestTrials k c count, po) = (s', Done (RpOp o)) /\
    o_done o = true /\ o_err o = false /\
    o_trials o = firstn count (filter (fun t => tstate_eqb (t_state t) ACTIVE && N.eqb (t_client t) c) (n_trials n)) /\
    (exists n', get_node k (nodes s') = Some n' /\ n_trials n' = n_trials n /\ n_study n' = n_study n).
Proof.
  intros Hg Him Hdone Hnum Hcount.
  set (mine := filter (fun o => N.eqb (o_client o) c) (n_ops n)) in *.
  set (own := filter (fun t => tstate_eqb (t_state t) ACTIVE && N.eqb (t_client t) c) (n_trials n)) in *.
  set (old := match mine with [] => 0%N | _ => N.of_nat (length mine) end).
  assert (Hold : old = N.of_nat (length mine)) by (unfold old; destruct mine; reflexivity).
  set (o := mkOp c (old + 1) false false []).
  set (o' := mkOp c (old + 1) true false (firstn count own)).
  set (n1 := mkN (n_study n) (n_trials n) (n_ops n ++ [o]) (n_es n)).
  set (n2 := mkN (n_study n) (n_trials n) (set_op o' (n_ops n ++ [o])) (n_es n)).
  exists o', (upd (upd s k n1) k n2).
  split; [|repeat split; try reflexivity; exists n2; repeat split; try reflexivity;
           apply (get_node_upd (upd s k n1) k n1 n2); apply (get_node_upd s k n n1); exact Hg].
  unfold step. cbn [fst snd handler]. rewrite h_suggest_shape. unfold guard_study. cbn [run exec]. rewrite Hg, Him.
  cbn [run exec]. rewrite Hg. cbn [run exec]. rewrite Hg. fold mine.
  assert (Hfree : existsb (op_is c (old + 1)) (n_ops n) = false) by (rewrite Hold; apply next_op_free; exact Hnum).
  assert (Htail : forall tr, run (Call (CCreateSop k o) (fun r3 => expect_unit r3 (suggest_tail k c count o))) s po tr =
                             (upd (upd s k n1) k n2, Done (RpOp o'), rev ((CUpdateSop k o', None) :: (CListTrials k, None) :: (CCreateSop k o, None) :: tr))).
  { intros tr. cbn [run exec]. rewrite Hg. cbn [o_client o_num o]. rewrite Hfree. cbn [expect_unit]. fold n1.
    unfold suggest_tail. cbn [run exec]. rewrite (get_node_upd s k n n1 Hg). cbn [n_trials n1]. fold own.
    assert (Hleb : Nat.leb count (length own) = true) by (apply Nat.leb_le; exact Hcount). rewrite Hleb.
    unfold finish_op. cbn [run exec o_client o_num o]. rewrite (get_node_upd s k n n1 Hg). cbn [n_ops n1].
    rewrite (existsb_app_last c (old + 1) (n_ops n) o) by (unfold op_is, o; simpl; rewrite !N.eqb_refl; reflexivity).
    cbn [expect_unit run n_study n_trials n_es n1]. reflexivity. }
  destruct mine as [|m0 mrest] eqn:Em.
  - cbn [run exec]. rewrite Hg. fold mine. rewrite Em. unfold old in *. rewrite (Htail _). reflexivity.
  - cbn zeta. rewrite (filter_undone_nil (m0 :: mrest) Hdone). cbn [run exec]. rewrite Hg. fold mine. rewrite Em.
    unfold old in *. rewrite (Htail _). reflexivity.
Qed.
