From Coq Require Import Lqa.
From VZ Require Import Base.Prelude Model.Space Model.Conv Proofs.SpaceP.

Definition wf_pc (p : pcfg) : Prop :=
  (pc_lo p <= pc_hi p)%Q /\
  (pc_type p = TInteger -> (pc_lo p == inject_Z (Qfloor (pc_lo p)))%Q /\ (pc_hi p == inject_Z (Qfloor (pc_hi p)))%Q).

Lemma Qfloor_inject z : Qfloor (inject_Z z) = z.
Proof. unfold Qfloor, inject_Z. simpl. apply Z.div_1_r. Qed.

Lemma in_zrange z a b : In z (zrange a b) -> (a <= z <= b)%Z.
Proof.
  unfold zrange. rewrite in_map_iff. intros (i & <- & Hi). apply in_seq in Hi. lia.
Qed.

Lemma qclip_range lo hi q : (lo <= hi)%Q -> (lo <= qclip lo hi q)%Q /\ (qclip lo hi q <= hi)%Q.
Proof.
  intros H. unfold qclip. destruct (Qle_bool q lo) eqn:E1; [split; [apply Qle_refl|auto]|].
  destruct (Qle_bool hi q) eqn:E2; [split; [auto|apply Qle_refl]|].
  split.
  - destruct (Qlt_le_dec lo q) as [Hl|Hl]; [apply Qlt_le_weak; auto|apply Qle_bool_iff in Hl; congruence].
  - destruct (Qlt_le_dec q hi) as [Hl|Hl]; [apply Qlt_le_weak; auto|apply Qle_bool_iff in Hl; congruence].
Qed.
Lemma qclip_id lo hi q : (lo < q)%Q -> (q < hi)%Q -> qclip lo hi q = q.
Proof.
  intros H1 H2. unfold qclip. destruct (Qle_bool q lo) eqn:E1; [apply Qle_bool_iff in E1; exfalso; apply (Qlt_not_le _ _ H1 E1)|].
  destruct (Qle_bool hi q) eqn:E2; [apply Qle_bool_iff in E2; exfalso; apply (Qlt_not_le _ _ H2 E2)|reflexivity].
Qed.

Lemma nearest_from_in x : forall l best, nearest_from x best l = best \/ In (nearest_from x best l) l.
Proof.
  induction l as [|f r IH]; intros best; simpl; auto.
  destruct (Qlt_le_dec (qabs_diff f x) (qabs_diff best x)).
  - destruct (IH f) as [->|H]; auto.
  - destruct (IH best) as [->|H]; auto.
Qed.
Lemma nearest_in x l f : nearest x l = Some f -> In f l.
Proof. destruct l as [|g r]; simpl; [discriminate|]. intros [= <-]. destruct (nearest_from_in x r g) as [->|H]; auto. Qed.

(* the snapped value is a closest feasible value *)
Lemma nearest_from_opt x : forall l best,
  (qabs_diff (nearest_from x best l) x <= qabs_diff best x)%Q /\
  (forall g, In g l -> (qabs_diff (nearest_from x best l) x <= qabs_diff g x)%Q).
Proof.
  induction l as [|f r IH]; intros best; simpl.
  - split; [apply Qle_refl|intros g []].
  - destruct (Qlt_le_dec (qabs_diff f x) (qabs_diff best x)) as [Hlt|Hle].
    + destruct (IH f) as [I1 I2]. split; [eapply Qle_trans; [exact I1|apply Qlt_le_weak; auto]|].
      intros g [<-|Hg]; auto.
    + destruct (IH best) as [I1 I2]. split; auto. intros g [<-|Hg]; auto. eapply Qle_trans; eauto.
Qed.
Lemma nearest_optimal x l f : nearest x l = Some f -> forall g, In g l -> (qabs_diff f x <= qabs_diff g x)%Q.
Proof.
  destruct l as [|h r]; simpl; [discriminate|]. intros [= <-] g [<-|Hg]; destruct (nearest_from_opt x r h) as [I1 I2]; auto.
Qed.

Lemma in_feas_in_domain p v : wf_pc p -> In v (feas_values p) -> in_domain p v.
Proof.
  intros [Hle Hint] Hin. unfold feas_values in Hin. unfold in_domain. destruct (pc_type p) eqn:Et.
  - destruct Hin.
  - apply in_map_iff in Hin. destruct Hin as (z & <- & Hz). apply in_zrange in Hz. destruct (Hint eq_refl) as [Hl Hh].
    exists (inject_Z z). simpl. repeat split; auto.
    + rewrite Z.div_1_r. reflexivity.
    + rewrite Hl. rewrite <- Zle_Qle. lia.
    + rewrite Hh. rewrite <- Zle_Qle. lia.
  - apply in_map_iff in Hin. destruct Hin as (q & <- & Hq). exists q, q. simpl. split; [reflexivity|split; [exact Hq|reflexivity]].
  - apply in_map_iff in Hin. destruct Hin as (s & <- & Hs). exists s. simpl. auto.
Qed.

Lemma in_feas_nums_internal p f : wf_pc p -> In f (feas_nums p) -> in_domain p (internal_value (pc_type p) f).
Proof.
  intros Hwf Hin. apply in_feas_in_domain; auto. unfold feas_nums in Hin. unfold feas_values, internal_value.
  destruct (pc_type p); try contradiction.
  - apply in_map_iff in Hin. destruct Hin as (z & <- & Hz). rewrite Qfloor_inject. apply in_map. auto.
  - apply (in_map (fun q => RFloat (XF q))). auto.
Qed.

Lemma in_feas_nums_internal' p ty f : wf_pc p -> pc_type p = ty -> In f (feas_nums p) -> in_domain p (internal_value ty f).
Proof. intros Hwf <- Hin. apply in_feas_nums_internal; auto. Qed.

(* decoding any value yields a parameter value inside the domain (when clipping is on) *)
Lemma decode_in_domain c x v : wf_pc (cv_pc c) -> cv_clip c = true -> to_pvalue c x = DSome v -> in_domain (cv_pc c) v.
Proof.
  intros Hwf Hclip. unfold to_pvalue. destruct (cv_converts c); simpl; [|discriminate].
  destruct x as [q| | |]; try discriminate.
  - destruct (pc_type (cv_pc c)) eqn:Et.
    + rewrite Hclip. intros [= <-]. unfold in_domain. rewrite Et. destruct Hwf as [Hle _].
      destruct (qclip_range (pc_lo (cv_pc c)) (pc_hi (cv_pc c)) q Hle). eexists. simpl. eauto.
    + destruct (cv_continuified c).
      * destruct (nearest q (feas_nums (cv_pc c))) as [f|] eqn:En; [|discriminate]. intros [= <-].
        eapply (in_feas_nums_internal' _ _ f Hwf Et). eapply nearest_in; eauto.
      * destruct (negb _); [discriminate|]. destruct (Z.leb _ _); [discriminate|].
        destruct (Z.leb 0 _); [|destruct (Z.leb _ _); [|discriminate]];
          (match goal with |- context [nth_error ?l ?i] => destruct (nth_error l i) as [w|] eqn:En; [|discriminate] end);
          intros [= <-]; apply in_feas_in_domain; auto; eapply nth_error_In; eauto.
    + destruct (cv_continuified c).
      * destruct (nearest q (feas_nums (cv_pc c))) as [f|] eqn:En; [|discriminate]. intros [= <-].
        eapply (in_feas_nums_internal' _ _ f Hwf Et). eapply nearest_in; eauto.
      * destruct (negb _); [discriminate|]. destruct (Z.leb _ _); [discriminate|].
        destruct (Z.leb 0 _); [|destruct (Z.leb _ _); [|discriminate]];
          (match goal with |- context [nth_error ?l ?i] => destruct (nth_error l i) as [w|] eqn:En; [|discriminate] end);
          intros [= <-]; apply in_feas_in_domain; auto; eapply nth_error_In; eauto.
    + destruct (cv_continuified c).
      * destruct (nearest q (feas_nums (cv_pc c))) as [f|] eqn:En; [|discriminate]. intros [= <-].
        eapply (in_feas_nums_internal' _ _ f Hwf Et). eapply nearest_in; eauto.
      * destruct (negb _); [discriminate|]. destruct (Z.leb _ _); [discriminate|].
        destruct (Z.leb 0 _); [|destruct (Z.leb _ _); [|discriminate]];
          (match goal with |- context [nth_error ?l ?i] => destruct (nth_error l i) as [w|] eqn:En; [|discriminate] end);
          intros [= <-]; apply in_feas_in_domain; auto; eapply nth_error_In; eauto.
  - destruct (pc_type (cv_pc c)) eqn:Et.
    + rewrite Hclip. intros [= <-]. unfold in_domain. rewrite Et. destruct Hwf as [Hle _]. eexists. simpl. repeat split; eauto. apply Qle_refl.
    + destruct (cv_continuified c); [|discriminate]. destruct (feas_nums (cv_pc c)) as [|f r] eqn:Ef; [discriminate|].
      intros [= <-]. apply (in_feas_nums_internal' _ _ f Hwf Et). rewrite Ef. left; auto.
    + destruct (cv_continuified c); [|discriminate]. destruct (feas_nums (cv_pc c)) as [|f r] eqn:Ef; [discriminate|].
      intros [= <-]. apply (in_feas_nums_internal' _ _ f Hwf Et). rewrite Ef. left; auto.
    + destruct (cv_continuified c); [|discriminate]. destruct (feas_nums (cv_pc c)) as [|f r] eqn:Ef; [discriminate|].
      intros [= <-]. apply (in_feas_nums_internal' _ _ f Hwf Et). rewrite Ef. left; auto.
  - destruct (pc_type (cv_pc c)) eqn:Et.
    + rewrite Hclip. intros [= <-]. unfold in_domain. rewrite Et. destruct Hwf as [Hle _]. eexists. simpl. repeat split; eauto. apply Qle_refl.
    + destruct (cv_continuified c); [|discriminate]. destruct (feas_nums (cv_pc c)) as [|f r] eqn:Ef; [discriminate|].
      intros [= <-]. apply (in_feas_nums_internal' _ _ f Hwf Et). rewrite Ef. left; auto.
    + destruct (cv_continuified c); [|discriminate]. destruct (feas_nums (cv_pc c)) as [|f r] eqn:Ef; [discriminate|].
      intros [= <-]. apply (in_feas_nums_internal' _ _ f Hwf Et). rewrite Ef. left; auto.
    + destruct (cv_continuified c); [|discriminate]. destruct (feas_nums (cv_pc c)) as [|f r] eqn:Ef; [discriminate|].
      intros [= <-]. apply (in_feas_nums_internal' _ _ f Hwf Et). rewrite Ef. left; auto.
Qed.

(* without clipping the statement is false: this is what a should_clip=False site would allow *)
Lemma noclip_escapes : exists c x v, wf_pc (cv_pc c) /\ to_pvalue c x = DSome v /\ ~ in_domain (cv_pc c) v.
Proof.
  exists (mkCv (mkPC [112%N] TDouble 0 1 [] []) false false true), (XF 2), (RFloat (XF 2)).
  split; [split; [discriminate|intros [=]]|]. split; [reflexivity|].
  unfold in_domain. simpl. intros (q & [= <-] & H1 & H2). apply Qle_bool_iff in H2. discriminate.
Qed.

(* ---- index decoding: the i-th feasible value, for every valid index *)
Lemma decode_index c i v : cv_converts c = true -> cv_continuified c = false -> pc_type (cv_pc c) <> TDouble ->
  nth_error (feas_values (cv_pc c)) i = Some v ->
  to_pvalue c (XF (inject_Z (Z.of_nat i))) = DSome v.
Proof.
  intros Hc Hn Ht Hi. unfold to_pvalue. rewrite Hc, Hn. simpl.
  assert (Hlen : (i < length (feas_values (cv_pc c)))%nat) by (apply nth_error_Some; congruence).
  destruct (pc_type (cv_pc c)) eqn:Et; [congruence| | |];
    rewrite Z.div_1_r, Qeq_bool_refl; simpl;
    (destruct (Z.leb_spec (Z.of_nat (length (feas_values (cv_pc c)))) (Z.of_nat i)); [lia|]);
    (destruct (Z.leb_spec 0 (Z.of_nat i)); [|lia]); rewrite Nat2Z.id, Hi; reflexivity.
Qed.

(* ---- one-hot embedding: exactly one active entry, and un-embedding finds it *)
Lemma onehot_length n i : length (onehot n i) = n.
Proof. unfold onehot. rewrite map_length, seq_length. reflexivity. Qed.
Lemma onehot_nth n i j : (j < n)%nat -> nth j (onehot n i) 0 = if Nat.eqb j i then 1 else 0.
Proof.
  intros Hj. unfold onehot. set (f := fun k : nat => if Nat.eqb k i then 1 else 0).
  rewrite (nth_indep (map f (seq 0 n)) 0 (f 0%nat)) by (rewrite map_length, seq_length; auto).
  rewrite (map_nth f). rewrite seq_nth by auto. reflexivity.
Qed.

Ltac nat_cases := repeat match goal with
  | |- context [Nat.leb ?a ?b] => destruct (Nat.leb_spec a b)
  | |- context [Nat.ltb ?a ?b] => destruct (Nat.ltb_spec a b)
  end; simpl; try reflexivity; try lia.

Lemma argmax_from_onehot i : forall m idx best_i best, (best = 0 \/ best = 1) ->
  argmax_from best_i best idx (map (fun j => if Nat.eqb j i then 1 else 0) (seq idx m)) =
  if Qeq_bool best 1 then best_i else if (Nat.leb idx i && Nat.ltb i (idx + m)%nat)%bool then i else best_i.
Proof.
  induction m as [|m IH]; intros idx best_i best Hb; cbn [seq map argmax_from].
  - destruct (Qeq_bool best 1); auto. nat_cases.
  - destruct (Nat.eqb_spec idx i) as [->|Hne].
    + destruct Hb as [->| ->].
      * destruct (Qlt_le_dec 0 1) as [_|H]; [|exfalso; apply (Qle_not_lt _ _ H); reflexivity].
        rewrite IH by auto. change (Qeq_bool 1 1) with true. change (Qeq_bool 0 1) with false. cbn iota. nat_cases.
      * destruct (Qlt_le_dec 1 1) as [H|_]; [exfalso; apply (Qlt_irrefl _ H)|]. rewrite IH by auto. reflexivity.
    + destruct Hb as [->| ->].
      * destruct (Qlt_le_dec 0 0) as [H|_]; [exfalso; apply (Qlt_irrefl _ H)|]. rewrite IH by auto.
        change (Qeq_bool 0 1) with false. cbn iota. nat_cases.
      * destruct (Qlt_le_dec 1 0) as [H|_]; [exfalso; revert H; compute; discriminate|]. rewrite IH by auto. reflexivity.
Qed.

Lemma unembed_onehot n i : (i < n)%nat -> argmax (onehot n i) = i.
Proof.
  intros Hi. unfold argmax, onehot. destruct n as [|n]; [lia|]. cbn [seq map].
  destruct (Nat.eqb_spec 0 i) as [<-|Hne].
  - rewrite (argmax_from_onehot 0 n 1 0 1) by auto. reflexivity.
  - rewrite (argmax_from_onehot i n 1 0 0) by auto. change (Qeq_bool 0 1) with false. cbn iota. nat_cases.
Qed.

(* ---- labels: the sign convention is undone exactly *)
Lemma label_roundtrip flip v : (label_to_metric flip (label_convert flip v) == v)%Q.
Proof. unfold label_to_metric, label_convert. destruct flip; [apply Qopp_involutive|reflexivity]. Qed.
