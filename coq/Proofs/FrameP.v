(* C01: across every RPC, every trial that is stored before and after has evolved by a legal transition (trans_ok), for all
   states with unique trial ids, all arguments and all Pythia answers. *)
From VZ Require Import Base.Prelude Base.XFloat Model.Metadata Model.Service Proofs.ServiceP Proofs.WedgeP.
From Coq Require Import Lia.

(* ---------- trans_ok is a preorder *)
Lemma tstate_eqb_refl a : tstate_eqb a a = true.
Proof. destruct a; reflexivity. Qed.
Lemma trans_ok_refl t : trans_ok t t.
Proof. unfold trans_ok, legal. rewrite tstate_eqb_refl. repeat split; auto. Qed.
Lemma legal_not_requested a b : legal a b = true -> a <> REQUESTED -> b <> REQUESTED.
Proof. destruct a, b; simpl; intros H1 H2; try discriminate; try congruence; intros H3; discriminate. Qed.
Lemma legal_trans a b c : legal a b = true -> legal b c = true -> legal a c = true.
Proof. destruct a, b, c; simpl; auto. Qed.
Lemma legal_completed a b : legal a b = true -> completed a = true -> b = a.
Proof. destruct a, b; simpl; intros H1 H2; try discriminate; reflexivity. Qed.
Lemma trans_ok_trans a b c : trans_ok a b -> trans_ok b c -> trans_ok a c.
Proof.
  intros [A1 [A2 [A3 [A4 A5]]]] [B1 [B2 [B3 [B4 B5]]]].
  split; [congruence|]. split; [congruence|]. split; [eapply legal_trans; eauto|]. split.
  - intros Hc. destruct (A4 Hc) as [E1 [E2 E3]]. assert (Hc' : completed (t_state b) = true) by (rewrite E1; exact Hc).
    destruct (B4 Hc') as [F1 [F2 F3]]. repeat split; congruence.
  - intros Hr. rewrite (B5 (legal_not_requested _ _ A3 Hr)). exact (A5 Hr).
Qed.

(* ---------- forward tracking: every study persists, and in it every trial persists with a legal evolution *)
Definition tracks (s s' : state) : Prop :=
  forall k n, get_node k (nodes s) = Some n -> exists n', get_node k (nodes s') = Some n' /\
    forall id t, get_trial id (n_trials n) = Some t -> exists t', get_trial id (n_trials n') = Some t' /\ trans_ok t t'.

Lemma tracks_refl s : tracks s s.
Proof. intros k n Hn. exists n. split; [exact Hn|]. intros id t Ht. exists t. split; [exact Ht|apply trans_ok_refl]. Qed.
Lemma tracks_trans a b c : tracks a b -> tracks b c -> tracks a c.
Proof.
  intros H1 H2 k n Hn. destruct (H1 k n Hn) as [n1 [Hn1 T1]]. destruct (H2 k n1 Hn1) as [n2 [Hn2 T2]].
  exists n2. split; [exact Hn2|]. intros id t Ht. destruct (T1 id t Ht) as [t1 [Ht1 O1]]. destruct (T2 id t1 Ht1) as [t2 [Ht2 O2]].
  exists t2. split; [exact Ht2|eapply trans_ok_trans; eauto].
Qed.

(* the statement of C01 for one step follows from tracking *)
Lemma tracks_frame s s' k n n' id t t' : tracks s s' ->
  get_node k (nodes s) = Some n -> get_node k (nodes s') = Some n' ->
  get_trial id (n_trials n) = Some t -> get_trial id (n_trials n') = Some t' -> trans_ok t t'.
Proof.
  intros H Hn Hn' Ht Ht'. destruct (H k n Hn) as [n2 [Hn2 T]]. assert (n2 = n') by congruence. subst n2.
  destruct (T id t Ht) as [t2 [Ht2 O]]. assert (t2 = t') by congruence. subst. exact O.
Qed.

(* ---------- node / trial lookups after updates *)
Lemma get_node_upd_same s k n n' : get_node k (nodes s) = Some n -> get_node k (nodes (upd s k n')) = Some n'.
Proof.
  unfold upd. cbn [nodes]. induction (nodes s) as [|[k0 n0] t IH]; simpl; [discriminate|].
  destruct (skey_eqb k0 k) eqn:E; simpl; rewrite E; [reflexivity|exact IH].
Qed.
Lemma get_node_upd_other s k k' n' : k' <> k -> get_node k' (nodes (upd s k n')) = get_node k' (nodes s).
Proof.
  intros Hne. unfold upd. cbn [nodes]. induction (nodes s) as [|[k0 n0] t IH]; simpl; [reflexivity|].
  destruct (skey_eqb k0 k) eqn:E; simpl.
  - apply skey_eqb_eq in E. subst k0. destruct (skey_eqb k k') eqn:E2; [apply skey_eqb_eq in E2; congruence|reflexivity].
  - destruct (skey_eqb k0 k'); [reflexivity|exact IH].
Qed.

(* replacing the node of study k by one whose trials evolve legally *)
Lemma upd_tracks s k n n' : get_node k (nodes s) = Some n ->
  (forall id t, get_trial id (n_trials n) = Some t -> exists t', get_trial id (n_trials n') = Some t' /\ trans_ok t t') ->
  tracks s (upd s k n').
Proof.
  intros Hg Ht k0 n0 Hn0. destruct (skey_eqb k0 k) eqn:E.
  - apply skey_eqb_eq in E. subst k0. assert (n0 = n) by congruence. subst n0.
    exists n'. split; [eapply get_node_upd_same; eauto|exact Ht].
  - assert (Hne : k0 <> k) by (intros ->; rewrite skey_eqb_refl in E; discriminate).
    exists n0. split; [rewrite get_node_upd_other; assumption|]. intros id t H. exists t. split; [exact H|apply trans_ok_refl].
Qed.
Lemma same_trials_tracks s k n n' : get_node k (nodes s) = Some n -> n_trials n' = n_trials n -> tracks s (upd s k n').
Proof.
  intros Hg He. apply (upd_tracks s k n n' Hg). intros id t H. exists t. rewrite He. split; [exact H|apply trans_ok_refl].
Qed.

Lemma get_trial_app_old id l t x : get_trial id l = Some t -> get_trial id (l ++ [x]) = Some t.
Proof. induction l as [|y r IH]; simpl; [discriminate|]. destruct (N.eqb (t_id y) id); [auto|exact IH]. Qed.
Lemma get_node_app_old k l n x : get_node k l = Some n -> get_node k (l ++ [x]) = Some n.
Proof. induction l as [|[k0 n0] r IH]; simpl; [discriminate|]. destruct (skey_eqb k0 k); [auto|exact IH]. Qed.

Lemma get_set_trial_same t' l : (exists t, get_trial (t_id t') l = Some t) -> get_trial (t_id t') (set_trial t' l) = Some t'.
Proof.
  intros [t H]. induction l as [|x r IH]; simpl in *; [discriminate|].
  destruct (N.eqb_spec (t_id x) (t_id t')) as [E|E]; simpl.
  - rewrite N.eqb_refl. reflexivity.
  - destruct (N.eqb_spec (t_id x) (t_id t')); [congruence|]. apply IH. exact H.
Qed.

(* rewriting one stored trial by a legal transition *)
Lemma update_trial_tracks s k n cur t' : get_node k (nodes s) = Some n -> get_trial (t_id t') (n_trials n) = Some cur ->
  trans_ok cur t' -> tracks s (upd s k (mkN (n_study n) (set_trial t' (n_trials n)) (n_ops n) (n_es n))).
Proof.
  intros Hg Hc Hok. apply (upd_tracks s k n _ Hg). cbn [n_trials]. intros id t Ht.
  destruct (N.eq_dec id (t_id t')) as [->|Hne].
  - assert (t = cur) by congruence. subst t. exists t'. split; [apply get_set_trial_same; eauto|exact Hok].
  - exists t. split; [rewrite get_set_trial_other; assumption|apply trans_ok_refl].
Qed.

(* metadata updates touch t_md only *)
Lemma get_trial_map f l id t : (forall x, t_id (f x) = t_id x) -> get_trial id l = Some t -> get_trial id (map f l) = Some (f t).
Proof.
  intros Hf. induction l as [|x r IH]; simpl; [discriminate|]. rewrite Hf. destruct (N.eqb (t_id x) id); [intros [= ->]; reflexivity|exact IH].
Qed.

(* ---------- calls that track whatever their arguments are *)
Definition tgeneric (c : call) : bool :=
  match c with CDeleteStudy _ | CDeleteTrial _ _ | CUpdateTrial _ _ => false | _ => true end.

Lemma exec_tracks c s s' r : tgeneric c = true -> exec c s = (s', r) -> tracks s s'.
Proof.
  intros Hf H. destruct c; simpl in Hf; try discriminate; simpl in H; revert H; exec_cases; intros [= <- <-];
    try apply tracks_refl; try (eapply same_trials_tracks; [eassumption|reflexivity]).
  - (* create study *) intros k0 n0 Hn0. exists n0. split; [simpl; apply get_node_app_old; exact Hn0|].
    intros id t Ht. exists t. split; [exact Ht|apply trans_ok_refl].
  - intros k0 n0 Hn0. exists n0. split; [simpl; apply get_node_app_old; exact Hn0|].
    intros id t Ht. exists t. split; [exact Ht|apply trans_ok_refl].
  - (* create trial *) eapply upd_tracks; [eassumption|]. cbn [n_trials]. intros id t0 Ht. exists t0.
    split; [apply get_trial_app_old; exact Ht|apply trans_ok_refl].
  - (* update metadata *) eapply upd_tracks; [eassumption|]. cbn [n_trials]. intros id t0 Ht.
    eexists. split; [apply get_trial_map; [intros x; destruct (mem_N (t_id x) (map fst tmd)); reflexivity|exact Ht]|].
    destruct (mem_N (t_id t0) (map fst tmd)); [|apply trans_ok_refl].
    unfold trans_ok, legal. cbn [t_id t_params t_state t_meas t_final]. rewrite tstate_eqb_refl. repeat split; auto.
Qed.

(* ---------- programs made of tracking calls *)
Inductive tsafe : prog -> Prop :=
| ts_ret r : tsafe (Ret r)
| ts_throw e : tsafe (Throw e)
| ts_call c k : tgeneric c = true -> (forall r, tsafe (k r)) -> tsafe (Call c k)
| ts_acq l p : tsafe p -> tsafe (Acquire l p)
| ts_rel l p : tsafe p -> tsafe (Release l p)
| ts_py q k : (forall po, tsafe (k po)) -> tsafe (Pythia q k).

Lemma tsafe_run p : tsafe p -> forall s po tr s' o tr', run p s po tr = (s', o, tr') -> tracks s s'.
Proof.
  induction 1 as [r|e|c k Hc Hk IH|l p Hp IH|l p Hp IH|q k Hk IH]; intros s po tr s' o tr' Hr; simpl in Hr.
  - injection Hr as <- _ _. apply tracks_refl.
  - injection Hr as <- _ _. apply tracks_refl.
  - destruct (exec c s) as [s1 r] eqn:E. eapply tracks_trans; [eapply exec_tracks; eauto|eapply IH; eauto].
  - eapply IH; eauto.
  - eapply IH; eauto.
  - eapply IH; eauto.
Qed.

Ltac ts_step :=
  cbv beta zeta;
  match goal with
  | |- tsafe (Ret _) => apply ts_ret
  | |- tsafe (Throw _) => apply ts_throw
  | |- tsafe (Call _ _) => apply ts_call; [reflexivity|intros ?]
  | |- tsafe (Acquire _ _) => apply ts_acq
  | |- tsafe (Release _ _) => apply ts_rel
  | |- tsafe (Pythia _ _) => apply ts_py; intros ?
  | |- tsafe (expect_unit ?r _) => destruct r; cbn [expect_unit]
  | |- tsafe (match ?x with _ => _ end) => destruct x
  | |- tsafe (if ?b then _ else _) => destruct b
  end.

Lemma tsafe_decisions_loop k ds cont : tsafe cont -> tsafe (decisions_loop k ds cont).
Proof.
  intros Hc. induction ds as [|[id stop] rest IH]; cbn [decisions_loop]; [exact Hc|]. repeat first [exact IH | ts_step].
Qed.
Lemma tsafe_es_compute k id : tsafe (es_compute k id).
Proof. unfold es_compute. repeat first [apply tsafe_decisions_loop | ts_step]. Qed.

Definition quiet_rpc (r : rpc) : bool :=
  match r with
  | CreateStudy _ _ _ _ | GetStudy _ | ListStudies _ | SetStudyState _ _ | CreateTrial _ _ | GetTrial _ _ | ListTrials _
  | CheckEarlyStop _ _ _ | UpdateMetadata _ _ _ | ListOptimalTrials _ | GetOperation _ _ _ => true
  | _ => false
  end.
Lemma tsafe_handler r : quiet_rpc r = true -> tsafe (handler r).
Proof.
  intros Hr. destruct r; simpl in Hr; try discriminate; cbn [handler];
    unfold h_create_study, h_get_study, h_list_studies, h_set_study_state, h_create_trial, h_get_trial,
      h_list_trials, h_check_early_stop, h_update_metadata, h_list_optimal, h_get_operation, guard_study, with_trial;
    repeat first [apply tsafe_es_compute | ts_step].
Qed.

(* ---------- CompleteTrial / AddTrialMeasurement / StopTrial: one stored trial is rewritten by a legal transition *)
Lemma exec_get_trial s k id s' t : exec (CGetTrial k id) s = (s', Ok (RTrial t)) ->
  s' = s /\ exists n, get_node k (nodes s) = Some n /\ get_trial id (n_trials n) = Some t.
Proof.
  simpl. destruct (get_node k (nodes s)) as [n|] eqn:Hg; [|discriminate].
  destruct (get_trial id (n_trials n)) as [t0|] eqn:Ht; [|discriminate]. intros [= <- <-]. split; [reflexivity|eauto].
Qed.
Lemma exec_load_study_state s k s' r : exec (CLoadStudy k) s = (s', r) -> s' = s.
Proof. simpl. destruct (get_node k (nodes s)); intros [= <- _]; reflexivity. Qed.

Lemma update_step_tracks s k t' cur n po tr cont s' o tr' :
  get_node k (nodes s) = Some n -> get_trial (t_id t') (n_trials n) = Some cur -> trans_ok cur t' ->
  (forall r, tsafe (cont r)) ->
  run (Call (CUpdateTrial k t') cont) s po tr = (s', o, tr') -> tracks s s'.
Proof.
  intros Hg Hc Hok Hcont Hr. cbn [run exec] in Hr. rewrite Hg, Hc in Hr.
  eapply tracks_trans; [eapply update_trial_tracks; eauto|eapply tsafe_run; [apply Hcont|exact Hr]].
Qed.

Ltac use_update Hg Hr t n :=
  match type of Hr with
  | run (Call (CUpdateTrial ?k ?t') ?cont) ?s ?po ?tr = _ =>
    eapply (update_step_tracks s k t' t n po tr cont _ _ _ Hg); [ | | |exact Hr]
  end.

Ltac guard_open Hr s k :=
  unfold guard_study in Hr; cbn [run] in Hr;
  let s1 := fresh "s1" in let r1 := fresh "r1" in let E1 := fresh "E1" in
  destruct (exec (CLoadStudy k) s) as [s1 r1] eqn:E1; apply exec_load_study_state in E1; subst s1.

Lemma complete_ok t st' ms fin : trial_mutable t = true -> (st' = SUCCEEDED \/ st' = INFEASIBLE) -> ms = t_meas t ->
  trans_ok t (mkT (t_id t) st' (t_client t) (t_params t) ms fin (t_md t)).
Proof.
  intros Hm Hs ->. unfold trans_ok, legal, completed, trial_mutable in *. cbn [t_id t_params t_state t_meas t_final].
  repeat split; auto; destruct (t_state t); destruct Hs as [-> | ->]; simpl in *; auto; try discriminate; intros; discriminate.
Qed.

Lemma trial_level_tracks s rp po s' o tr' :
  (match rp with CompleteTrial _ _ _ _ | AddTrialMeasurement _ _ _ | StopTrial _ _ => True | _ => False end) ->
  run (handler rp) s po [] = (s', o, tr') -> tracks s s'.
Proof.
  intros Hk Hr. destruct rp; try contradiction; cbn [handler] in Hr.
  - (* AddTrialMeasurement *)
    unfold h_add_measurement in Hr. guard_open Hr s k.
    destruct r1 as [[| st | | | | | | |]|e]; try (cbn [run] in Hr; injection Hr as <- _ _; apply tracks_refl).
    destruct (immutable st); [cbn [run] in Hr; injection Hr as <- _ _; apply tracks_refl|].
    unfold with_trial in Hr. cbn [run] in Hr. destruct (exec (CGetTrial k id) s) as [s2 r2] eqn:E2.
    destruct r2 as [[| | | t | | | | |]|e]; try (simpl in E2; revert E2; exec_cases; intros [= <- ?]; try discriminate;
                                                cbn [run] in Hr; injection Hr as <- _ _; apply tracks_refl).
    apply exec_get_trial in E2. destruct E2 as [-> [n [Hg Ht]]].
    destruct (tstate_eqb (t_state t) INFEASIBLE); [cbn [run] in Hr; injection Hr as <- _ _; apply tracks_refl|].
    destruct (trial_mutable t) eqn:Hm; cbn [negb] in Hr; [|cbn [run] in Hr; injection Hr as <- _ _; apply tracks_refl].
    assert (Hid : t_id t = id) by (eapply get_trial_id; eauto).
    use_update Hg Hr t n; [cbn [t_id]; rewrite Hid; exact Ht| |intros r; repeat ts_step].
    unfold trans_ok, legal, completed, trial_mutable in *. cbn [t_id t_params t_state t_meas t_final].
    rewrite tstate_eqb_refl. repeat split; auto; destruct (t_state t); simpl in *; discriminate.
  - (* CompleteTrial *)
    unfold h_complete_trial in Hr. guard_open Hr s k.
    destruct r1 as [[| st | | | | | | |]|e]; try (cbn [run] in Hr; injection Hr as <- _ _; apply tracks_refl).
    destruct (immutable st); [cbn [run] in Hr; injection Hr as <- _ _; apply tracks_refl|].
    unfold with_trial in Hr. cbn [run] in Hr. destruct (exec (CGetTrial k id) s) as [s2 r2] eqn:E2.
    destruct r2 as [[| | | t | | | | |]|e]; try (simpl in E2; revert E2; exec_cases; intros [= <- ?]; try discriminate;
                                                cbn [run] in Hr; injection Hr as <- _ _; apply tracks_refl).
    apply exec_get_trial in E2. destruct E2 as [-> [n [Hg Ht]]].
    destruct (trial_mutable t) eqn:Hm; cbn [negb] in Hr; [|cbn [run] in Hr; injection Hr as <- _ _; apply tracks_refl].
    assert (Hid : t_id t = id) by (eapply get_trial_id; eauto).
    destruct final as [|f0 fs]; [destruct infeasible; [|destruct (t_meas t) eqn:Em; [cbn [run] in Hr; injection Hr as <- _ _; apply tracks_refl|]]|];
      (use_update Hg Hr t n; [cbn [t_id]; rewrite Hid; exact Ht| |intros r; repeat ts_step]);
      (apply complete_ok; [exact Hm|first [destruct infeasible; auto | auto]|auto]).
  - (* StopTrial *)
    unfold h_stop_trial in Hr. guard_open Hr s k.
    destruct r1 as [[| st | | | | | | |]|e]; try (cbn [run] in Hr; injection Hr as <- _ _; apply tracks_refl).
    destruct (immutable st); [cbn [run] in Hr; injection Hr as <- _ _; apply tracks_refl|].
    unfold with_trial in Hr. cbn [run] in Hr. destruct (exec (CGetTrial k id) s) as [s2 r2] eqn:E2.
    destruct r2 as [[| | | t | | | | |]|e]; try (simpl in E2; revert E2; exec_cases; intros [= <- ?]; try discriminate;
                                                cbn [run] in Hr; injection Hr as <- _ _; apply tracks_refl).
    apply exec_get_trial in E2. destruct E2 as [-> [n [Hg Ht]]].
    assert (Hid : t_id t = id) by (eapply get_trial_id; eauto).
    destruct (t_state t) eqn:Es; try (cbn [run] in Hr; injection Hr as <- _ _; apply tracks_refl).
    use_update Hg Hr t n; [unfold set_state; cbn [t_id]; rewrite Hid; exact Ht| |intros r; repeat ts_step].
    unfold trans_ok, set_state. cbn [t_id t_params t_state t_meas t_final]. rewrite Es. repeat split; auto; discriminate.
Qed.

(* ---------- unique trial ids *)
Definition wf_t (s : state) : Prop := forall k n, get_node k (nodes s) = Some n -> NoDup (map t_id (n_trials n)).

Lemma get_trial_None id l : get_trial id l = None -> ~ In id (map t_id l).
Proof.
  induction l as [|x r IH]; simpl; [tauto|]. destruct (N.eqb_spec (t_id x) id); [discriminate|]. intros H [Hx|Hx]; [congruence|exact (IH H Hx)].
Qed.
Lemma In_get_trial l t : NoDup (map t_id l) -> In t l -> get_trial (t_id t) l = Some t.
Proof.
  induction l as [|x r IH]; simpl; [tauto|]. intros Hnd [->|Hin]; [rewrite N.eqb_refl; reflexivity|].
  inversion Hnd; subst. destruct (N.eqb_spec (t_id x) (t_id t)) as [E|E].
  - exfalso. apply H1. rewrite E. apply in_map. exact Hin.
  - apply IH; assumption.
Qed.
Lemma set_trial_ids t l : map t_id (set_trial t l) = map t_id l.
Proof.
  induction l as [|x r IH]; simpl; [reflexivity|]. destruct (N.eqb_spec (t_id x) (t_id t)) as [E|E]; simpl; [congruence|rewrite IH; reflexivity].
Qed.

(* ---------- SuggestTrials: the assignment loop rewrites queued trials REQUESTED -> ACTIVE *)
Definition activate (c : N) (t : trial) : trial := mkT (t_id t) ACTIVE c (t_params t) (t_meas t) (t_final t) (t_md t).

Lemma activate_ok c t : t_state t = REQUESTED -> trans_ok t (activate c t).
Proof.
  intros H. unfold trans_ok, activate. cbn [t_id t_params t_state t_meas t_final t_client]. rewrite H.
  split; [reflexivity|]. split; [reflexivity|]. split; [reflexivity|]. split; [intros Hc; discriminate Hc|intros Hc; congruence].
Qed.

(* pool invariant: every queued trial still sits in the study as it was listed *)
Definition pool_ok (k : skey) (pool : list trial) (s : state) : Prop :=
  NoDup (map t_id pool) /\ exists n, get_node k (nodes s) = Some n /\
  forall t, In t pool -> get_trial (t_id t) (n_trials n) = Some t /\ t_state t = REQUESTED.

Lemma assign_loop_tracks k c : forall pool need out cont s po tr s' o tr',
  pool_ok k pool s -> (forall out', tsafe (cont out')) ->
  run (assign_loop k c pool need out cont) s po tr = (s', o, tr') -> tracks s s'.
Proof.
  induction pool as [|t rest IH]; intros need out cont s po tr s' o tr' Hp Hc Hr.
  - destruct need; cbn [assign_loop] in Hr; eapply tsafe_run; eauto.
  - destruct need as [|need']; cbn [assign_loop] in Hr; [eapply tsafe_run; eauto|].
    destruct Hp as [Hnd [n [Hg Hall]]]. destruct (Hall t (or_introl eq_refl)) as [Hget Hst].
    fold (activate c t) in Hr. cbn [run exec] in Hr. rewrite Hg in Hr. cbn [t_id activate] in Hr. rewrite Hget in Hr.
    cbn [expect_unit] in Hr.
    set (n1 := mkN (n_study n) (set_trial (activate c t) (n_trials n)) (n_ops n) (n_es n)) in *.
    eapply tracks_trans.
    + eapply (update_trial_tracks s k n t (activate c t) Hg); [exact Hget|apply activate_ok; exact Hst].
    + eapply (IH need' _ cont (upd s k n1)); [|exact Hc|exact Hr].
      inversion Hnd; subst. split; [assumption|]. exists n1. split; [eapply get_node_upd_same; eauto|].
      intros t0 Hin. destruct (Hall t0 (or_intror Hin)) as [G0 S0]. split; [|exact S0]. cbn [n_trials n1].
      rewrite get_set_trial_other; [exact G0|]. cbn [t_id activate]. intros E. apply H1. rewrite <- E. apply in_map. exact Hin.
Qed.

Lemma tsafe_create_loop k c : forall sugs need out cont, (forall l o, tsafe (cont l o)) -> tsafe (create_loop k c sugs need out cont).
Proof.
  induction sugs as [|p rest IH]; intros need out cont Hc; destruct need; cbn [create_loop]; try apply Hc.
  repeat first [apply IH; exact Hc | ts_step].
Qed.
Lemma tsafe_remain_loop k : forall rem cont, tsafe cont -> tsafe (remain_loop k rem cont).
Proof.
  induction rem as [|p rest IH]; intros cont Hc; cbn [remain_loop]; [exact Hc|]. repeat first [apply IH; exact Hc | ts_step].
Qed.
Lemma tsafe_finish_op k o err out : tsafe (finish_op k o err out).
Proof. unfold finish_op. repeat ts_step. Qed.

Lemma filter_requested_pool k s n : wf_t s -> get_node k (nodes s) = Some n ->
  pool_ok k (rev (filter (fun t => tstate_eqb (t_state t) REQUESTED) (n_trials n))) s.
Proof.
  intros Wt Hg. pose proof (Wt k n Hg) as Hnd. split.
  - rewrite map_rev. apply NoDup_rev. clear Hg. induction (n_trials n) as [|x r IH]; simpl; [constructor|].
    inversion Hnd; subst. destruct (tstate_eqb (t_state x) REQUESTED); simpl; [constructor|]; try (apply IH; assumption).
    intros Hin. apply H1. apply in_map_iff in Hin. destruct Hin as [y [Hy1 Hy2]]. apply filter_In in Hy2. destruct Hy2 as [Hy2 _].
    rewrite <- Hy1. apply in_map. exact Hy2.
  - exists n. split; [exact Hg|]. intros t Hin. apply in_rev in Hin. apply filter_In in Hin. destruct Hin as [Hin Hs].
    split; [apply In_get_trial; assumption|]. destruct (t_state t); simpl in Hs; try discriminate. reflexivity.
Qed.

Lemma suggest_tail_tracks k c count o s po tr s' out tr' : wf_t s ->
  run (suggest_tail k c count o) s po tr = (s', out, tr') -> tracks s s'.
Proof.
  intros Wt Hr. unfold suggest_tail in Hr. cbn [run] in Hr.
  destruct (exec (CListTrials k) s) as [s1 r1] eqn:E1.
  assert (s1 = s) by (simpl in E1; destruct (get_node k (nodes s)); injection E1 as <- _; reflexivity). subst s1.
  destruct r1 as [[| | | | all | | | |]|e]; try (cbn [run] in Hr; injection Hr as <- _ _; apply tracks_refl).
  cbv zeta in Hr.
  destruct (Nat.leb count (length (filter (fun t => tstate_eqb (t_state t) ACTIVE && N.eqb (t_client t) c) all))).
  - eapply tsafe_run; [apply tsafe_finish_op|exact Hr].
  - cbn [run] in Hr. destruct (exec (CListTrials k) s) as [s2 r2] eqn:E2.
    simpl in E2. destruct (get_node k (nodes s)) as [n|] eqn:Hg; injection E2 as <- <-;
      [|cbn [run] in Hr; injection Hr as <- _ _; apply tracks_refl].
    eapply assign_loop_tracks; [apply filter_requested_pool; eassumption| |exact Hr].
    intros out'. repeat first [apply tsafe_finish_op | apply tsafe_create_loop; intros ? ? | apply tsafe_remain_loop | ts_step].
Qed.

Lemma suggest_tracks k c count s po s' o tr' : wf_t s -> run (h_suggest k c count) s po [] = (s', o, tr') -> tracks s s'.
Proof.
  intros Wt. rewrite h_suggest_shape. unfold guard_study. cbn [run exec].
  destruct (get_node k (nodes s)) as [n|] eqn:Hg; [|cbn [run]; intros [= <- _ _]; apply tracks_refl].
  destruct (immutable (n_study n)); [cbn [run]; intros [= <- _ _]; apply tracks_refl|].
  cbn [run exec]. rewrite Hg. cbn [run exec]. rewrite Hg.
  assert (Hcreate : forall o1 tr, run (Call (CCreateSop k o1) (fun r3 => expect_unit r3 (suggest_tail k c count o1))) s po tr = (s', o, tr') -> tracks s s').
  { intros o1 tr Hr. cbn [run exec] in Hr. rewrite Hg in Hr.
    destruct (existsb (op_is (o_client o1) (o_num o1)) (n_ops n)); cbn [expect_unit run] in Hr; [injection Hr as <- _ _; apply tracks_refl|].
    eapply tracks_trans; [eapply (same_trials_tracks s k n (mkN (n_study n) (n_trials n) (n_ops n ++ [o1]) (n_es n))); [exact Hg|reflexivity]|].
    eapply suggest_tail_tracks; [|exact Hr].
    intros k0 n0 Hn0. destruct (skey_eqb k0 k) eqn:E.
    - apply skey_eqb_eq in E. subst k0. rewrite (get_node_upd_same s k n _ Hg) in Hn0. injection Hn0 as <-. cbn [n_trials]. exact (Wt k n Hg).
    - rewrite get_node_upd_other in Hn0 by (intros ->; rewrite skey_eqb_refl in E; discriminate). exact (Wt k0 n0 Hn0). }
  destruct (filter (fun o0 => N.eqb (o_client o0) c) (n_ops n)) as [|o0 rest] eqn:Em.
  - cbn [run exec]. rewrite Hg, Em. intros Hr. eapply Hcreate. exact Hr.
  - cbn zeta. destruct (filter (fun o1 => negb (o_done o1)) (o0 :: rest)) as [|u us].
    + cbn [run exec]. rewrite Hg, Em. intros Hr. eapply Hcreate. exact Hr.
    + cbn [run]. intros [= <- _ _]. apply tracks_refl.
Qed.

(* ---------- deletions *)
Lemma get_node_del_other k k0 l : k0 <> k -> get_node k0 (del_node k l) = get_node k0 l.
Proof.
  intros Hne. induction l as [|[k1 n1] r IH]; simpl; [reflexivity|]. destruct (skey_eqb k1 k) eqn:E; simpl.
  - apply skey_eqb_eq in E. subst k1. destruct (skey_eqb k k0) eqn:E2; [apply skey_eqb_eq in E2; congruence|reflexivity].
  - destruct (skey_eqb k1 k0); [reflexivity|exact IH].
Qed.
Lemma get_node_del_same k l : NoDup (map fst l) -> get_node k (del_node k l) = None.
Proof.
  induction l as [|[k1 n1] r IH]; simpl; [reflexivity|]. intros Hnd. inversion Hnd; subst. destruct (skey_eqb k1 k) eqn:E; simpl.
  - apply skey_eqb_eq in E. subst k1. destruct (get_node k r) eqn:G; [|reflexivity].
    exfalso. apply H1. apply get_node_In in G. apply in_map_iff. exists (k, n). auto.
  - rewrite E. apply IH. assumption.
Qed.
Lemma get_del_trial_other id id0 l : id0 <> id -> get_trial id0 (del_trial id l) = get_trial id0 l.
Proof.
  intros Hne. induction l as [|x r IH]; simpl; [reflexivity|]. destruct (N.eqb_spec (t_id x) id) as [E|E]; simpl.
  - destruct (N.eqb_spec (t_id x) id0); [congruence|reflexivity].
  - destruct (N.eqb (t_id x) id0); [reflexivity|exact IH].
Qed.
Lemma get_del_trial_same id l : NoDup (map t_id l) -> get_trial id (del_trial id l) = None.
Proof.
  induction l as [|x r IH]; simpl; [reflexivity|]. intros Hnd. inversion Hnd; subst. destruct (N.eqb_spec (t_id x) id) as [E|E]; simpl.
  - destruct (get_trial id r) eqn:G; [|reflexivity]. exfalso. apply H1. rewrite E.
    assert (t_id t = id) by (eapply get_trial_id; eauto). rewrite <- H.
    clear - G. induction r as [|y r' IH']; simpl in *; [discriminate|]. destruct (N.eqb (t_id y) id); [injection G as ->; auto|right; apply IH'; exact G].
  - destruct (N.eqb_spec (t_id x) id); [congruence|]. apply IH. assumption.
Qed.

Definition frame (s s' : state) : Prop :=
  forall k n n' id t t', get_node k (nodes s) = Some n -> get_node k (nodes s') = Some n' ->
    get_trial id (n_trials n) = Some t -> get_trial id (n_trials n') = Some t' -> trans_ok t t'.

Lemma delete_study_frame k s po s' o tr' : wf s -> run (h_delete_study k) s po [] = (s', o, tr') -> frame s s'.
Proof.
  intros [W1 _] Hr. unfold h_delete_study in Hr. cbn [run exec] in Hr.
  destruct (get_node k (nodes s)) as [n0|] eqn:Hg; cbn [expect_unit run] in Hr; injection Hr as <- _ _.
  - intros k0 n n' id t t' Hn Hn' Ht Ht'. cbn [nodes] in Hn'. destruct (skey_eqb k0 k) eqn:E.
    + apply skey_eqb_eq in E. subst k0. rewrite get_node_del_same in Hn' by exact W1. discriminate.
    + rewrite get_node_del_other in Hn' by (intros ->; rewrite skey_eqb_refl in E; discriminate).
      assert (n' = n) by congruence. subst. assert (t' = t) by congruence. subst. apply trans_ok_refl.
  - intros k0 n n' id t t' Hn Hn' Ht Ht'. assert (n' = n) by congruence. subst. assert (t' = t) by congruence. subst. apply trans_ok_refl.
Qed.

Lemma frame_refl s : frame s s.
Proof. intros k n n' id t t' Hn Hn' Ht Ht'. assert (n' = n) by congruence. subst. assert (t' = t) by congruence. subst. apply trans_ok_refl. Qed.

Lemma delete_trial_frame k id s po s' o tr' : wf_t s -> run (h_delete_trial k id) s po [] = (s', o, tr') -> frame s s'.
Proof.
  intros Wt Hr. unfold h_delete_trial, guard_study in Hr. cbn [run exec] in Hr.
  destruct (get_node k (nodes s)) as [n0|] eqn:Hg; [|cbn [run] in Hr; injection Hr as <- _ _; apply frame_refl].
  destruct (immutable (n_study n0)); [cbn [run] in Hr; injection Hr as <- _ _; apply frame_refl|].
  cbn [run exec] in Hr. rewrite Hg in Hr.
  destruct (get_trial id (n_trials n0)) eqn:Hgt; cbn [expect_unit run] in Hr; injection Hr as <- _ _; [|apply frame_refl].
  intros k0 n n' id0 t0 t' Hn Hn' Ht Ht'. destruct (skey_eqb k0 k) eqn:E.
  - apply skey_eqb_eq in E. subst k0. assert (n = n0) by congruence. subst n.
    rewrite (get_node_upd_same s k n0 _ Hg) in Hn'. injection Hn' as <-. cbn [n_trials] in Ht'.
    destruct (N.eq_dec id0 id) as [->|Hne].
    + rewrite get_del_trial_same in Ht' by exact (Wt k n0 Hg). discriminate.
    + rewrite get_del_trial_other in Ht' by exact Hne. assert (t' = t0) by congruence. subst. apply trans_ok_refl.
  - rewrite get_node_upd_other in Hn' by (intros ->; rewrite skey_eqb_refl in E; discriminate).
    assert (n' = n) by congruence. subst. assert (t' = t0) by congruence. subst. apply trans_ok_refl.
Qed.

(* ---------- the theorem *)
Theorem frame_step s ro : wf s -> wf_t s -> frame s (step_state s ro).
Proof.
  intros W Wt. destruct ro as [rp po]. unfold step_state, step. cbn [fst snd].
  destruct (run (handler rp) s po []) as [[s1 o1] tr1] eqn:Hr. cbn [fst].
  assert (Htr : tracks s s1 -> frame s s1).
  { intros T k n n' id t t' Hn Hn' Ht Ht'. eapply tracks_frame; eauto. }
  destruct rp; try (apply Htr; eapply tsafe_run; cycle 1; [exact Hr|apply tsafe_handler; reflexivity]).
  - cbn [handler] in Hr. eapply delete_study_frame; eauto.
  - apply Htr. cbn [handler] in Hr. eapply suggest_tracks; eauto.
  - apply Htr. eapply trial_level_tracks; [|exact Hr]. exact I.
  - apply Htr. eapply trial_level_tracks; [|exact Hr]. exact I.
  - apply Htr. eapply trial_level_tracks; [|exact Hr]. exact I.
  - cbn [handler] in Hr. eapply delete_trial_frame; eauto.
Qed.

(* ---------- unique trial ids are preserved, so the theorem holds along every history *)
Lemma upd_wf_t s k n n' : wf_t s -> get_node k (nodes s) = Some n -> NoDup (map t_id (n_trials n')) -> wf_t (upd s k n').
Proof.
  intros Wt Hg Hnd k0 n0 Hn0. destruct (skey_eqb k0 k) eqn:E.
  - apply skey_eqb_eq in E. subst k0. rewrite (get_node_upd_same s k n n' Hg) in Hn0. injection Hn0 as <-. exact Hnd.
  - rewrite get_node_upd_other in Hn0 by (intros ->; rewrite skey_eqb_refl in E; discriminate). exact (Wt k0 n0 Hn0).
Qed.
Lemma get_node_app_new k l x k0 n0 : get_node k0 l = None -> get_node k0 (l ++ [(k, x)]) = Some n0 -> n0 = x.
Proof.
  induction l as [|[k1 n1] r IH]; simpl.
  - intros _. destruct (skey_eqb k k0); [intros [= <-]; reflexivity|discriminate].
  - destruct (skey_eqb k1 k0); [discriminate|exact IH].
Qed.
Lemma app_wf_t s ow k st : wf_t s -> wf_t (mkSt ow (nodes s ++ [(k, mkN st [] [] [])])).
Proof.
  intros Wt k0 n0 Hn0. cbn [nodes] in Hn0. destruct (get_node k0 (nodes s)) as [m|] eqn:G.
  - rewrite (get_node_app_old k0 (nodes s) m _ G) in Hn0. injection Hn0 as <-. exact (Wt k0 m G).
  - apply (get_node_app_new k (nodes s) _ k0 n0 G) in Hn0. subst n0. constructor.
Qed.
Lemma del_wf_t s k : wf s -> wf_t s -> wf_t (mkSt (owners s) (del_node k (nodes s))).
Proof.
  intros [W1 _] Wt k0 n0 Hn0. cbn [nodes] in Hn0. destruct (skey_eqb k0 k) eqn:E.
  - apply skey_eqb_eq in E. subst k0. rewrite get_node_del_same in Hn0 by exact W1. discriminate.
  - rewrite get_node_del_other in Hn0 by (intros ->; rewrite skey_eqb_refl in E; discriminate). exact (Wt k0 n0 Hn0).
Qed.
Lemma del_trial_ids_NoDup id l : NoDup (map t_id l) -> NoDup (map t_id (del_trial id l)).
Proof.
  induction l as [|x r IH]; simpl; [auto|]. intros Hnd. inversion Hnd; subst. destruct (N.eqb (t_id x) id); [assumption|]. simpl.
  constructor; [|apply IH; assumption]. intros Hin. apply H1. clear - Hin.
  induction r as [|y r' IH']; simpl in *; [tauto|]. destruct (N.eqb (t_id y) id); simpl in *; [right; exact Hin|destruct Hin; auto].
Qed.

Lemma exec_wf_t c s s' r : wf s -> wf_t s -> exec c s = (s', r) -> wf_t s'.
Proof.
  intros W Wt H.
  destruct c; simpl in H; revert H; exec_cases; intros [= <- <-]; try exact Wt;
    try (apply app_wf_t; exact Wt); try (apply del_wf_t; assumption);
    (eapply upd_wf_t; [exact Wt|eassumption|]; cbn [n_trials];
     match goal with Hg : get_node _ (nodes s) = Some ?n |- _ => pose proof (Wt _ _ Hg) as Hnd0 end).
  - exact Hnd0.
  - rewrite map_app. simpl. apply NoDup_app_single; [exact Hnd0|]. apply get_trial_None. assumption.
  - rewrite set_trial_ids. exact Hnd0.
  - apply del_trial_ids_NoDup. exact Hnd0.
  - exact Hnd0.
  - exact Hnd0.
  - exact Hnd0.
  - exact Hnd0.
  - rewrite map_map. erewrite map_ext; [exact Hnd0|]. intros x. destruct (mem_N (t_id x) (map fst tmd)); reflexivity.
Qed.

Lemma run_wf_all p : forall s po tr s' o tr', wf s -> wf_t s -> run p s po tr = (s', o, tr') -> wf s' /\ wf_t s'.
Proof.
  induction p as [r|e|cl kont IH|l p IH|l p IH|q kont IH]; intros s po tr s' o tr' W Wt Hr; simpl in Hr.
  - injection Hr as <- _ _. auto.
  - injection Hr as <- _ _. auto.
  - destruct (exec cl s) as [s2 r2] eqn:E. eapply IH; [eapply exec_wf; eauto|eapply exec_wf_t; eauto|exact Hr].
  - eapply IH; eauto.
  - eapply IH; eauto.
  - eapply IH; eauto.
Qed.

(* along every history from the initial state, every step satisfies the frame property *)
Theorem frame_history ops ro : frame (run_all ops init_state) (step_state (run_all ops init_state) ro).
Proof.
  assert (H : forall s, wf s -> wf_t s -> wf (run_all ops s) /\ wf_t (run_all ops s)).
  { induction ops as [|r0 rest IH]; intros s W Wt; [simpl; auto|]. unfold run_all. cbn [fold_left].
    assert (Hs : wf (step_state s r0) /\ wf_t (step_state s r0)).
    { destruct r0 as [rp po]. unfold step_state, step. cbn [fst snd].
      destruct (run (handler rp) s po []) as [[s1 o1] tr1] eqn:Hr. cbn [fst]. eapply run_wf_all; eauto. }
    destruct Hs. apply IH; assumption. }
  destruct (H init_state (proj1 wf_init)) as [W Wt]; [intros k n Hn; simpl in Hn; discriminate|].
  apply frame_step; assumption.
Qed.
