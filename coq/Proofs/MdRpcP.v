(* C10 at the level of the UpdateMetadata RPC: what the call stores, and that a rejected call changes nothing. *)
From VZ Require Import Base.Prelude Base.XFloat Model.Metadata Model.Service Proofs.ServiceP Proofs.WedgeP Proofs.FrameP.

Definition md_names_ok (n : node) (tmd : list (N * kv)) : bool :=
  forallb (fun u => match get_trial (fst u) (n_trials n) with Some _ => true | None => false end) tmd.
Definition with_md (t : trial) (md : list kv) : trial :=
  mkT (t_id t) (t_state t) (t_client t) (t_params t) (t_meas t) (t_final t) md.

Theorem update_metadata_rpc s k n smd tmd po :
  get_node k (nodes s) = Some n -> immutable (n_study n) = false ->
  if md_names_ok n tmd
  then exists s' n', step s (UpdateMetadata k smd tmd, po) = (s', Done RpEmpty) /\ get_node k (nodes s') = Some n' /\
         s_state (n_study n') = s_state (n_study n) /\ s_metrics (n_study n') = s_metrics (n_study n) /\
         s_md (n_study n') = merge (s_md (n_study n)) smd /\
         n_ops n' = n_ops n /\ n_es n' = n_es n /\
         (forall id t, get_trial id (n_trials n) = Some t ->
            get_trial id (n_trials n') =
              Some (if mem_N id (map fst tmd) then with_md t (merge_trial id (t_md t) tmd) else t)) /\
         (forall id, get_trial id (n_trials n) = None -> get_trial id (n_trials n') = None) /\
         (forall k', k' <> k -> get_node k' (nodes s') = get_node k' (nodes s))
  else step s (UpdateMetadata k smd tmd, po) = (s, Done RpMdError).
Proof.
  intros Hn Him. unfold step. cbn [fst snd handler]. unfold h_update_metadata, guard_study. cbn [run exec]. rewrite Hn, Him.
  cbn [run exec]. rewrite Hn. fold (md_names_ok n tmd). destruct (md_names_ok n tmd) eqn:Eok; cbn [run]; [|reflexivity].
  eexists. eexists. split; [reflexivity|]. split; [apply (get_node_upd_same s k n _ Hn)|].
  cbn [n_study n_ops n_es n_trials s_state s_metrics s_md]. repeat split.
  - intros id t Ht.
    set (f := fun t0 : trial => if mem_N (t_id t0) (map fst tmd)
                      then mkT (t_id t0) (t_state t0) (t_client t0) (t_params t0) (t_meas t0) (t_final t0) (merge_trial (t_id t0) (t_md t0) tmd)
                      else t0).
    assert (Hid : t_id t = id) by (apply get_trial_id in Ht; exact Ht).
    rewrite (get_trial_map f (n_trials n) id t); [|intros x; unfold f; destruct (mem_N _ _); reflexivity|exact Ht].
    unfold f, with_md. rewrite Hid. reflexivity.
  - intros id Hnone. induction (n_trials n) as [|x r IH]; cbn [map get_trial] in *; [reflexivity|].
    assert (Hx : t_id (if mem_N (t_id x) (map fst tmd)
                       then mkT (t_id x) (t_state x) (t_client x) (t_params x) (t_meas x) (t_final x) (merge_trial (t_id x) (t_md x) tmd)
                       else x) = t_id x) by (destruct (mem_N _ _); reflexivity).
    rewrite Hx. destruct (N.eqb (t_id x) id); [discriminate|apply IH; exact Hnone].
  - intros k' Hne. apply get_node_upd_other. exact Hne.
Qed.

(* ---------- any sequence of UpdateMetadata calls: the study's metadata is the fold of the accepted updates *)
Definition md_rpcs (k : skey) (po : pythia_out) (ups : list (list kv * list (N * kv))) : list (rpc * pythia_out) :=
  map (fun u => (UpdateMetadata k (fst u) (snd u), po)) ups.
Definition accepted (n : node) (ups : list (list kv * list (N * kv))) : list (list kv) :=
  map fst (filter (fun u => md_names_ok n (snd u)) ups).
Definition same_ids (n n' : node) : Prop := forall id, get_trial id (n_trials n') = None <-> get_trial id (n_trials n) = None.

Lemma md_names_ok_same n n' tmd : same_ids n n' -> md_names_ok n' tmd = md_names_ok n tmd.
Proof.
  intros H. unfold md_names_ok. induction tmd as [|u r IH]; cbn [forallb]; [reflexivity|]. rewrite IH. f_equal.
  specialize (H (fst u)).
  destruct (get_trial (fst u) (n_trials n')), (get_trial (fst u) (n_trials n)); try reflexivity.
  - destruct H as [_ H]. specialize (H eq_refl). discriminate.
  - destruct H as [H _]. specialize (H eq_refl). discriminate.
Qed.
Lemma filter_ext' {A} (f g : A -> bool) l : (forall x, f x = g x) -> filter f l = filter g l.
Proof. intros H. induction l as [|x r IH]; cbn [filter]; [reflexivity|]. rewrite H, IH. reflexivity. Qed.

Theorem update_metadata_history k po : forall ups s n,
  get_node k (nodes s) = Some n -> immutable (n_study n) = false ->
  exists n', get_node k (nodes (run_all (md_rpcs k po ups) s)) = Some n' /\
    s_md (n_study n') = fold_left merge (accepted n ups) (s_md (n_study n)) /\
    immutable (n_study n') = false /\ same_ids n n'.
Proof.
  induction ups as [|[smd tmd] rest IH]; intros s n Hn Him.
  - exists n. cbn. repeat split; auto.
  - unfold md_rpcs, run_all. cbn [map fold_left fst snd]. unfold step_state at 2.
    pose proof (update_metadata_rpc s k n smd tmd po Hn Him) as H. unfold accepted. cbn [filter snd].
    destruct (md_names_ok n tmd) eqn:Eok.
    + destruct H as [s' [n1 [Hstep [Hn1 [Hst [Hme [Hmd [_ [_ [Htr [Hnone _]]]]]]]]]]]. rewrite Hstep. cbn [fst].
      assert (Him1 : immutable (n_study n1) = false) by (unfold immutable in *; rewrite Hst; exact Him).
      assert (Hsame : same_ids n n1).
      { intros id. split; [|apply Hnone]. intros H1. destruct (get_trial id (n_trials n)) as [t|] eqn:Et; [|reflexivity].
        rewrite (Htr id t Et) in H1. discriminate. }
      destruct (IH s' n1 Hn1 Him1) as [n' [Hn' [Hmd' [Him' Hs']]]]. exists n'. split; [exact Hn'|].
      split; [|split; [exact Him'|]].
      * rewrite Hmd'. cbn [map fst fold_left]. rewrite Hmd. f_equal. unfold accepted. f_equal. apply filter_ext'. intros u.
        apply md_names_ok_same. exact Hsame.
      * intros id. rewrite (Hs' id). apply Hsame.
    + rewrite H. cbn [fst]. apply (IH s n Hn Him).
Qed.
