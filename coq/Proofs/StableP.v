(* C04: no lost update.  While a thread holds the per-study lock of study k, no step of any other thread changes the trials,
   the study record or the metadata of k - under every schedule of any number of calls.  What a handler read under the lock
   is therefore still what is stored when it writes back.  The one exception is the deletion of the whole study, which takes
   no lock (DeleteStudy is a single datastore primitive; known finding C04-guard-outside-lock covers its races). *)
From VZ Require Import Base.Prelude Base.XFloat Model.Metadata Model.Service Model.ServiceEq Model.Conc
                       Proofs.ServiceP Proofs.WedgeP Proofs.FrameP Proofs.DeadlockP Proofs.IsolationP Proofs.LockCoverP.
From Coq Require Import Lia.

(* every thread's remaining program makes its writes under locks it holds or will take *)
Definition tcovered (t : thread) : Prop := th_result t = None -> covered (th_held t) (th_prog t).
Definition cfg_covered (c : cfg) : Prop := Forall tcovered (c_threads c).

Lemma park_covered p : forall oracle held, covered held p -> tcovered (park p oracle held).
Proof.
  induction p as [r|e|c k IH|l p IH|l p IH|q k IH]; intros oracle held H; cbn [park]; unfold tcovered; cbn [th_result th_held th_prog];
    try (intros Hd; discriminate Hd); try (intros _; exact H).
  - apply IH. exact H.
  - apply IH. exact (H oracle).
Qed.

Lemma start_covered s rpcs : cfg_covered (start s rpcs).
Proof.
  unfold cfg_covered, start. cbn [c_threads]. induction rpcs as [|ro r IH]; simpl; constructor; auto.
  apply park_covered. apply writes_are_covered.
Qed.

Lemma cstep_covered c tid c' : cfg_covered c -> cstep c tid = Some c' -> cfg_covered c'.
Proof.
  unfold cfg_covered, cstep. intros Hok. destruct (nth_error (c_threads c) tid) as [t|] eqn:En; [|discriminate].
  assert (Ht : tcovered t) by (rewrite Forall_forall in Hok; apply Hok; eapply nth_error_In; eauto).
  destruct (enabled (c_threads c) t) eqn:Een; [|discriminate].
  unfold enabled in Een. unfold tcovered in Ht. destruct (th_result t); [discriminate|]. specialize (Ht eq_refl).
  destruct (th_prog t) as [| |cl k|l k| |]; try discriminate.
  - destruct (exec cl (c_state c)) as [s' r]. intros [= <-]. cbn [c_threads].
    apply Forall_set_nth; [exact Hok|]. apply park_covered. cbn [covered] in Ht. apply Ht.
  - intros [= <-]. cbn [c_threads]. apply Forall_set_nth; [exact Hok|]. apply park_covered. exact Ht.
Qed.

(* the part of a study that the per-study lock protects *)
Definition protected_part (k : skey) (s : state) : option (study * list trial) :=
  match get_node k (nodes s) with Some n => Some (n_study n, n_trials n) | None => None end.

Lemma protected_same_at k s s' : same_at k s' s -> protected_part k s' = protected_part k s.
Proof. unfold same_at, protected_part. intros ->. reflexivity. Qed.

Lemma protected_upd k s n n' : get_node k (nodes s) = Some n -> n_study n' = n_study n -> n_trials n' = n_trials n ->
  protected_part k (upd s k n') = protected_part k s.
Proof. intros Hg H1 H2. unfold protected_part. rewrite (get_node_upd_same s k n n' Hg), Hg, H1, H2. reflexivity. Qed.

(* a primitive either leaves the protected part of k alone, or it is one that needs LStudy k, or it deletes / creates k *)
Lemma exec_protected c k s : (forall st, c <> CCreateStudy k st) -> c <> CDeleteStudy k ->
  protected_part k (fst (exec c s)) = protected_part k s \/ needs_lock c = Some (LStudy k).
Proof.
  intros Hcs Hds.
  destruct (call_local c) as [k0|] eqn:Hl.
  - destruct (skey_eqb k0 k) eqn:E.
    + apply skey_eqb_eq in E. subst k0.
      destruct c; cbn [call_local] in Hl; try discriminate; injection Hl as ->; cbn [needs_lock]; try (right; reflexivity);
        left; cbn [exec]; exec_cases; cbn [fst]; try reflexivity;
        (eapply protected_upd; [eassumption|reflexivity|reflexivity]).
    + left. apply protected_same_at. destruct (exec_local c k0 s s Hl eq_refl) as [_ [_ [Ho _]]]. apply Ho.
      intros ->. rewrite skey_eqb_refl in E. discriminate.
  - left. destruct c; cbn [call_local] in Hl; try discriminate; cbn [exec]; exec_cases; cbn [fst]; try reflexivity.
    + (* create another study *) unfold protected_part. cbn [nodes].
      destruct (get_node k (nodes s)) as [m|] eqn:Em; [rewrite (get_node_app_old k (nodes s) m _ Em); reflexivity|].
      assert (Hne : skey_eqb k0 k = false).
      { destruct (skey_eqb k0 k) eqn:E; [|reflexivity]. apply skey_eqb_eq in E. subst k0. exfalso. eapply Hcs. reflexivity. }
      clear -Em Hne. induction (nodes s) as [|[k1 n1] r IH]; cbn [get_node app] in *; [rewrite Hne; reflexivity|].
      destruct (skey_eqb k1 k); [discriminate|apply IH; exact Em].
    + unfold protected_part. cbn [nodes].
      destruct (get_node k (nodes s)) as [m|] eqn:Em; [rewrite (get_node_app_old k (nodes s) m _ Em); reflexivity|].
      assert (Hne : skey_eqb k0 k = false).
      { destruct (skey_eqb k0 k) eqn:E; [|reflexivity]. apply skey_eqb_eq in E. subst k0. exfalso. eapply Hcs. reflexivity. }
      clear -Em Hne. induction (nodes s) as [|[k1 n1] r IH]; cbn [get_node app] in *; [rewrite Hne; reflexivity|].
      destruct (skey_eqb k1 k); [discriminate|apply IH; exact Em].
    + (* delete another study *) unfold protected_part. cbn [nodes].
      assert (Hne : k <> k0) by (intros ->; apply Hds; reflexivity).
      clear -Hne. induction (nodes s) as [|[k1 n1] r IH]; cbn [get_node del_node]; [reflexivity|].
      destruct (skey_eqb k1 k0) eqn:E1.
      * apply skey_eqb_eq in E1. subst k1. destruct (skey_eqb k0 k) eqn:E2; [apply skey_eqb_eq in E2; congruence|reflexivity].
      * cbn [get_node]. destruct (skey_eqb k1 k); [reflexivity|exact IH].
Qed.

(* ---------- the theorem: a step of another thread does not touch what a held study lock protects *)
Definition is_study_delete_or_create (k : skey) (p : prog) : Prop :=
  match p with Call (CDeleteStudy k') _ => k' = k | Call (CCreateStudy k' _) _ => k' = k | _ => False end.

Theorem critical_section_stable c i j ti tj k c' :
  exclusive c -> cfg_covered c -> i <> j ->
  nth_error (c_threads c) i = Some ti -> existsb (lock_eqb (LStudy k)) (th_held ti) = true ->
  nth_error (c_threads c) j = Some tj -> ~ is_study_delete_or_create k (th_prog tj) ->
  cstep c j = Some c' -> protected_part k (c_state c') = protected_part k (c_state c).
Proof.
  intros Hx Hcov Hij Hi Hheld Hj Hnd Hs. unfold cstep in Hs. rewrite Hj in Hs.
  destruct (enabled (c_threads c) tj) eqn:Een; [|discriminate].
  assert (Hres : th_result tj = None) by (unfold enabled in Een; destruct (th_result tj); [discriminate|reflexivity]).
  assert (Htc : covered (th_held tj) (th_prog tj)).
  { unfold cfg_covered in Hcov. rewrite Forall_forall in Hcov. apply (Hcov tj); [eapply nth_error_In; eauto|exact Hres]. }
  destruct (th_prog tj) as [| |cl kont|l p| |] eqn:Ep; try discriminate.
  - destruct (exec cl (c_state c)) as [s' r] eqn:E. injection Hs as <-. cbn [c_state].
    assert (H1 : forall st, cl <> CCreateStudy k st) by (intros st ->; apply Hnd; reflexivity).
    assert (H2 : cl <> CDeleteStudy k) by (intros ->; apply Hnd; reflexivity).
    destruct (exec_protected cl k (c_state c) H1 H2) as [Hsame|Hneed]; [rewrite E in Hsame; exact Hsame|].
    (* the call needs LStudy k: thread j would hold it - but thread i does *)
    exfalso. cbn [covered] in Htc. destruct Htc as [Hlock _]. rewrite Hneed in Hlock.
    pose proof (Hx i j ti tj (LStudy k) Hij Hi Hj Hheld) as Hno. congruence.
  - injection Hs as <-. reflexivity.
Qed.

(* along every schedule from any start: the two invariants hold, so the theorem applies at every step *)
Lemma run_sched_covered fuel : forall sched c, cfg_covered c -> cfg_covered (run_sched fuel sched c).
Proof.
  induction fuel as [|fuel IH]; intros sched c Hok; simpl; auto.
  destruct (match sched with
            | [] => first_enabled c
            | tid :: _ => match cstep c tid with Some _ => Some tid | None => first_enabled c end
            end) as [tid|]; auto.
  destruct (cstep c tid) as [c'|] eqn:E; auto. apply IH. eapply cstep_covered; eauto.
Qed.

Theorem no_lost_update s rpcs fuel sched i j ti tj k c' :
  let c := run_sched fuel sched (start s rpcs) in
  i <> j -> nth_error (c_threads c) i = Some ti -> existsb (lock_eqb (LStudy k)) (th_held ti) = true ->
  nth_error (c_threads c) j = Some tj -> ~ is_study_delete_or_create k (th_prog tj) ->
  cstep c j = Some c' -> protected_part k (c_state c') = protected_part k (c_state c).
Proof.
  intros c. apply critical_section_stable; [apply mutual_exclusion|apply run_sched_covered; apply start_covered].
Qed.
