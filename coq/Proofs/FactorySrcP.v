From VZ Require Import Base.Prelude Model.Space Model.FactoryIR Gen.FactorySrc.
Import ListNotations.

Theorem src_factory_is_factory : forall name bounds feasible,
  factory_of src_factory src_helpers name bounds feasible = factory name bounds feasible.
Proof.
  intros name bounds feasible. unfold factory_of, src_factory, src_helpers, factory.
  cbn [feval geval vb_finite vb_ordered fp_finite fp_sorted fp_bounds_first_last cat_sorted negb orb].
  destruct name as [|n0 nm]; [reflexivity|].
  destruct feasible as [|f0 fs]; destruct bounds as [[lo hi]|]; try reflexivity.
  - (* bounds only *)
    destruct (is_int lo && is_int hi) eqn:Ei; cbn [orb].
    + destruct (fin_q lo), (fin_q hi); try reflexivity.
      destruct (is_int lo); [reflexivity|discriminate].
    + destruct (is_float lo && is_float hi) eqn:Ef; [|reflexivity].
      destruct (fin_q lo), (fin_q hi); try reflexivity.
      destruct (is_int lo) eqn:E1; [|reflexivity].
      destruct lo; cbn in E1, Ef; try discriminate.
Qed.
