(* The handler programs regenerated from the source (Gen/Handlers.v through HandlerIR.interp) are the hand-written handler
   programs of Model/Service.v: same tree of datastore calls, lock operations, replies and errors. *)
From VZ Require Import Base.Prelude Base.XFloat Model.Metadata Model.Service Model.HandlerIR Gen.Handlers.
Import ListNotations.

Lemma peq_refl : forall p, peq p p.
Proof. induction p; constructor; auto. Qed.
Lemma peq_ret_eq : forall a b, a = b -> peq (Ret a) (Ret b).
Proof. intros a b <-. constructor. Qed.
Lemma peq_call_eq : forall c c' k k', c = c' -> (forall r, peq (k r) (k' r)) -> peq (Call c k) (Call c' k').
Proof. intros c c' k k' <- H. constructor. exact H. Qed.

(* peq is extensional equality of programs for the sequential semantics *)
Lemma peq_run : forall p p', peq p p' -> forall s o tr, run p s o tr = run p' s o tr.
Proof.
  induction 1; intros s o tr; cbn [run]; auto.
  destruct (exec c s) as [s' r]. auto.
Qed.

Ltac peq_go :=
  repeat (unfold handler_of, with_trial, guard_study, expect_unit, with_var, ret, upd_trial, env0;
          cbn -[N.add immutable];
          match goal with
          | |- peq (Ret _) (Ret _) => apply peq_ret_eq; try reflexivity
          | |- peq (Throw ?a) (Throw ?a) => constructor
          | |- peq (Acquire _ _) (Acquire _ _) => constructor
          | |- peq (Release _ _) (Release _ _) => constructor
          | |- peq (Call _ _) (Call _ _) =>
            apply peq_call_eq; [try reflexivity|]; let r := fresh "r" in intros r; destruct r as [[]|[]];
            try match goal with t : trial |- _ => let ti := fresh "ti" in let tc := fresh "tc" in let tp := fresh "tp" in let tm := fresh "tm" in
                               let tf := fresh "tf" in let td := fresh "td" in destruct t as [ti [] tc tp tm tf td] end
          | |- peq (if immutable ?s then _ else _) _ => destruct (immutable s) eqn:?
          end).

Definition st0 : study := mkS SS_UNSPEC [] [].
Definition rq0 : req := mkReq (0, 0)%N 0 0 0 0 [] [] false SS_UNSPEC (mkT 0 REQUESTED 0 0 [] [] []) [] [] st0 false.
Definition rq_study (k : skey) : req := mkReq k 0 (fst k) 0 0 [] [] false SS_UNSPEC (mkT 0 REQUESTED 0 0 [] [] []) [] [] st0 false.
Definition rq_trial (k : skey) (id : N) : req := mkReq k id (fst k) 0 0 [] [] false SS_UNSPEC (mkT 0 REQUESTED 0 0 [] [] []) [] [] st0 false.

Lemma src_get_study k : peq (handler_of (rq_study k) src_GetStudy) (h_get_study k).
Proof. unfold src_GetStudy, h_get_study, rq_study. peq_go. Qed.

Lemma src_list_studies o : peq (handler_of (mkReq (o, 0%N) 0 o 0 0 [] [] false SS_UNSPEC (q_trial rq0) [] [] st0 false) src_ListStudies) (h_list_studies o).
Proof. unfold src_ListStudies, h_list_studies. peq_go. Qed.
Lemma src_delete_study k : peq (handler_of (rq_study k) src_DeleteStudy) (h_delete_study k).
Proof. unfold src_DeleteStudy, h_delete_study, rq_study. peq_go. Qed.
Lemma src_set_study_state k ns :
  peq (handler_of (mkReq k 0 (fst k) 0 0 [] [] false ns (q_trial rq0) [] [] st0 false) src_SetStudyState) (h_set_study_state k ns).
Proof. unfold src_SetStudyState, h_set_study_state. peq_go. Qed.
Lemma src_get_operation k c n :
  peq (handler_of (mkReq k 0 (fst k) c n [] [] false SS_UNSPEC (q_trial rq0) [] [] st0 false) src_GetOperation) (h_get_operation k c n).
Proof. unfold src_GetOperation, h_get_operation. peq_go. Qed.
Lemma src_get_trial k id : peq (handler_of (rq_trial k id) src_GetTrial) (h_get_trial k id).
Proof. unfold src_GetTrial, h_get_trial, rq_trial. peq_go. Qed.
Lemma src_list_trials k : peq (handler_of (rq_study k) src_ListTrials) (h_list_trials k).
Proof. unfold src_ListTrials, h_list_trials, rq_study. peq_go. Qed.
Lemma src_delete_trial k id : peq (handler_of (rq_trial k id) src_DeleteTrial) (h_delete_trial k id).
Proof. unfold src_DeleteTrial, h_delete_trial, rq_trial. peq_go. Qed.

Lemma src_stop_trial k id : peq (handler_of (rq_trial k id) src_StopTrial) (h_stop_trial k id).
Proof. unfold src_StopTrial, h_stop_trial, rq_trial. peq_go. Qed.

Lemma src_add_measurement k id m :
  peq (handler_of (mkReq k id (fst k) 0 0 m [] false SS_UNSPEC (q_trial rq0) [] [] st0 false) src_AddTrialMeasurement) (h_add_measurement k id m).
Proof. unfold src_AddTrialMeasurement, h_add_measurement. peq_go. Qed.

Lemma src_complete_trial k id final infeasible :
  peq (handler_of (mkReq k id (fst k) 0 0 [] final infeasible SS_UNSPEC (q_trial rq0) [] [] st0 false) src_CompleteTrial)
      (h_complete_trial k id final infeasible).
Proof.
  unfold src_CompleteTrial, h_complete_trial. peq_go.
  all: destruct final as [|f0 fr]; destruct infeasible; try destruct tm as [|m0 mr]; peq_go.
Qed.

Lemma src_create_trial k t :
  peq (handler_of (mkReq k 0 (fst k) 0 0 [] [] false SS_UNSPEC t [] [] st0 false) src_CreateTrial) (h_create_trial k t).
Proof.
  unfold src_CreateTrial, h_create_trial. destruct t as [ti ts tc tp tm tf td]. destruct ts; peq_go.
Qed.

Lemma src_update_metadata k smd tmd :
  peq (handler_of (mkReq k 0 (fst k) 0 0 [] [] false SS_UNSPEC (q_trial rq0) smd tmd st0 false) src_UpdateMetadata) (h_update_metadata k smd tmd).
Proof. unfold src_UpdateMetadata, h_update_metadata. peq_go. Qed.

(* the guard and the class constant *)
Lemma src_study_guard : forall st, immutable st = negb (existsb (sstate_eqb (s_state st)) study_mutable_states).
Proof. intros [[] ? ?]; reflexivity. Qed.
Lemma src_trial_mutable : forall t, trial_mutable t = state_in (t_state t) trial_mutable_states.
Proof. intros [? [] ? ? ? ? ?]; reflexivity. Qed.

Lemma src_create_study o sid named st :
  peq (handler_of (mkReq (o, sid) 0 o 0 0 [] [] false SS_UNSPEC (q_trial rq0) [] [] st named) src_CreateStudy) (h_create_study o sid named st).
Proof.
  unfold src_CreateStudy, h_create_study, handler_of, env0. destruct named; [cbn; constructor|].
  cbn -[N.eqb find]. destruct (N.eqb sid 0) eqn:E0; cbn -[N.eqb find]; [constructor|].
  constructor. apply peq_call_eq; [reflexivity|]. intros r.
  destruct r as [[| |l| | | | | |]|[]]; cbn -[N.eqb find];
    try (match goal with |- peq (Throw _) (Throw _) => constructor end).
  - match goal with |- context [find ?f l] => destruct (find f l) as [[k' s']|] end; cbn -[N.eqb find].
    + unfold ret. cbn. repeat constructor.
    + apply peq_call_eq; [reflexivity|]. intros r2. destruct r2 as [?|?]; cbn; repeat constructor.
  - apply peq_call_eq; [reflexivity|]. intros r2. destruct r2 as [?|?]; cbn; repeat constructor.
Qed.

(* ------------------------------------------------------------------ all translated handlers at once *)
Definition t0 : trial := mkT 0 REQUESTED 0 0 [] [] [].
Definition req_of_rpc (r : rpc) : req :=
  match r with
  | GetStudy k | DeleteStudy k | ListTrials k => mkReq k 0 (fst k) 0 0 [] [] false SS_UNSPEC t0 [] [] st0 false
  | ListStudies o => mkReq (o, 0%N) 0 o 0 0 [] [] false SS_UNSPEC t0 [] [] st0 false
  | SetStudyState k ns => mkReq k 0 (fst k) 0 0 [] [] false ns t0 [] [] st0 false
  | GetOperation k c n => mkReq k 0 (fst k) c n [] [] false SS_UNSPEC t0 [] [] st0 false
  | CreateTrial k t => mkReq k 0 (fst k) 0 0 [] [] false SS_UNSPEC t [] [] st0 false
  | GetTrial k id | DeleteTrial k id | StopTrial k id => mkReq k id (fst k) 0 0 [] [] false SS_UNSPEC t0 [] [] st0 false
  | AddTrialMeasurement k id m => mkReq k id (fst k) 0 0 m [] false SS_UNSPEC t0 [] [] st0 false
  | CompleteTrial k id f i => mkReq k id (fst k) 0 0 [] f i SS_UNSPEC t0 [] [] st0 false
  | UpdateMetadata k smd tmd => mkReq k 0 (fst k) 0 0 [] [] false SS_UNSPEC t0 smd tmd st0 false
  | CreateStudy o sid named st => mkReq (o, sid) 0 o 0 0 [] [] false SS_UNSPEC t0 [] [] st named
  | SuggestTrials k c _ => mkReq k 0 (fst k) c 0 [] [] false SS_UNSPEC t0 [] [] st0 false
  | CheckEarlyStop _ k id => mkReq k id (fst k) 0 0 [] [] false SS_UNSPEC t0 [] [] st0 false
  | ListOptimalTrials k => mkReq k 0 (fst k) 0 0 [] [] false SS_UNSPEC t0 [] [] st0 false
  end.
(* the statements regenerated from the method of that name; None for the four handlers that stay hand-written *)
Definition src_of_rpc (r : rpc) : option stmt :=
  match r with
  | GetStudy _ => Some src_GetStudy | ListStudies _ => Some src_ListStudies | DeleteStudy _ => Some src_DeleteStudy
  | SetStudyState _ _ => Some src_SetStudyState | GetOperation _ _ _ => Some src_GetOperation
  | CreateTrial _ _ => Some src_CreateTrial | GetTrial _ _ => Some src_GetTrial | ListTrials _ => Some src_ListTrials
  | AddTrialMeasurement _ _ _ => Some src_AddTrialMeasurement | CompleteTrial _ _ _ _ => Some src_CompleteTrial
  | DeleteTrial _ _ => Some src_DeleteTrial | StopTrial _ _ => Some src_StopTrial
  | UpdateMetadata _ _ _ => Some src_UpdateMetadata
  | CreateStudy _ _ _ _ => Some src_CreateStudy
  | SuggestTrials _ _ _ | CheckEarlyStop _ _ _ | ListOptimalTrials _ => None
  end.
Definition handler_from_source (r : rpc) : prog :=
  match src_of_rpc r with Some body => handler_of (req_of_rpc r) body | None => handler r end.

Theorem source_handlers_are_the_model : forall r, peq (handler_from_source r) (handler r).
Proof.
  intros r. unfold handler_from_source.
  destruct r; cbn [src_of_rpc req_of_rpc handler]; unfold t0;
    first [ apply src_create_study | apply src_get_study | apply src_list_studies | apply src_delete_study | apply src_set_study_state
          | apply src_create_trial | apply src_get_trial | apply src_list_trials | apply src_add_measurement
          | apply src_complete_trial | apply src_stop_trial | apply src_delete_trial | apply src_update_metadata
          | apply src_get_operation | apply peq_refl ].
Qed.

Theorem source_handlers_run_like_the_model : forall r s o tr, run (handler_from_source r) s o tr = run (handler r) s o tr.
Proof. intros. apply peq_run, source_handlers_are_the_model. Qed.

(* hence a whole history run with the regenerated handlers is the history of the model *)
Definition step_src (s : state) (ro : rpc * pythia_out) : state * outcome :=
  let '(s', o, _) := run (handler_from_source (fst ro)) s (snd ro) [] in (s', o).
Theorem source_history : forall ops s,
  fold_left (fun s ro => fst (step_src s ro)) ops s = run_all ops s.
Proof.
  induction ops as [|ro ops IH]; intros s; [reflexivity|]. cbn [fold_left run_all]. unfold run_all in IH. rewrite IH. f_equal.
  unfold step_src, step_state, step. rewrite source_handlers_run_like_the_model. reflexivity.
Qed.

(* With functional extensionality (an axiom of the standard library, Coq.Logic.FunctionalExtensionality) `peq` is equality:
   the regenerated handlers ARE the model's handlers, so every theorem about `handler r` - the interleaving semantics of C04
   and the crash semantics of C05 included - is literally a theorem about the regenerated programs. *)
From Coq Require Import FunctionalExtensionality.
Lemma peq_eq : forall p q, peq p q -> p = q.
Proof.
  induction 1; try reflexivity.
  - f_equal. apply functional_extensionality. assumption.
  - f_equal. assumption.
  - f_equal. assumption.
  - f_equal. apply functional_extensionality. assumption.
Qed.
Theorem source_handlers_equal_the_model : forall r, handler_from_source r = handler r.
Proof. intros r. apply peq_eq, source_handlers_are_the_model. Qed.
