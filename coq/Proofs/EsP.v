(* C06, early stopping: CheckTrialEarlyStoppingState never leaves an ACTIVE early-stopping operation behind, whatever the
   algorithm answers (decisions for this trial, for other trials, for none; a failure; metadata that cannot be stored) and
   however the call ends.  "Active" is what the handler itself reads: the first stored record of a trial id. *)
From VZ Require Import Base.Prelude Base.XFloat Model.Metadata Model.Service Proofs.ServiceP Proofs.WedgeP Proofs.FrameP.
From Coq Require Import Lia.

Definition es_is (id : N) (e : esop) : bool := N.eqb (e_trial e) id.
Definition active_at (n : node) (id : N) : bool :=
  match find (es_is id) (n_es n) with Some e => e_active e | None => false end.

Definition es_quiet (s : state) : Prop :=
  forall k n, get_node k (nodes s) = Some n -> forall id, active_at n id = false.

(* while the handler for study k runs: other studies are quiet, and in k only ids of A may be active *)
Definition es_inv (k : skey) (A : list N) (s : state) : Prop :=
  (forall k' n', k' <> k -> get_node k' (nodes s) = Some n' -> forall id, active_at n' id = false) /\
  exists n, get_node k (nodes s) = Some n /\ forall id, active_at n id = true -> In id A.

Lemma es_inv_weaken k A B s : incl A B -> es_inv k A s -> es_inv k B s.
Proof. intros HI [Ho [n [Hn Ha]]]. split; [exact Ho|]. exists n. split; [exact Hn|]. intros id H. apply HI. apply Ha. exact H. Qed.

Lemma es_inv_nil_quiet k s : es_inv k [] s -> es_quiet s.
Proof.
  intros [Ho [n [Hn Ha]]] k' n' Hn' id. destruct (skey_eqb k' k) eqn:E.
  - apply skey_eqb_eq in E. subst k'. assert (n' = n) by congruence. subst n'.
    destruct (active_at n id) eqn:Ea; [|reflexivity]. destruct (Ha id Ea).
  - apply (Ho k' n'); [|exact Hn']. intros ->. rewrite skey_eqb_refl in E. discriminate.
Qed.

Lemma quiet_es_inv k n s A : es_quiet s -> get_node k (nodes s) = Some n -> es_inv k A s.
Proof.
  intros Q Hn. split; [intros k' n' _ Hn' id; exact (Q k' n' Hn' id)|]. exists n. split; [exact Hn|].
  intros id H. rewrite (Q k n Hn id) in H. discriminate.
Qed.

(* ---------- find over the two list operations of the datastore *)
Lemma es_is_eq id x : es_is id x = N.eqb (e_trial x) id.
Proof. reflexivity. Qed.

Lemma existsb_find_none id l : existsb (fun e' => N.eqb (e_trial e') id) l = false -> find (es_is id) l = None.
Proof. induction l as [|x r IH]; simpl; [reflexivity|]. rewrite es_is_eq. destruct (N.eqb (e_trial x) id); simpl; [discriminate|exact IH]. Qed.
Lemma find_existsb id l e : find (es_is id) l = Some e -> existsb (fun e' => N.eqb (e_trial e') id) l = true.
Proof.
  induction l as [|x r IH]; simpl; [discriminate|]. rewrite es_is_eq. destruct (N.eqb (e_trial x) id); simpl; [reflexivity|exact IH].
Qed.
Lemma find_none_existsb id l : find (es_is id) l = None -> existsb (fun e' => N.eqb (e_trial e') id) l = false.
Proof.
  induction l as [|x r IH]; simpl; [reflexivity|]. rewrite es_is_eq. destruct (N.eqb (e_trial x) id); simpl; [discriminate|exact IH].
Qed.

Lemma find_app_new id' e l : find (es_is (e_trial e)) l = None ->
  find (es_is id') (l ++ [e]) = if N.eqb (e_trial e) id' then Some e else find (es_is id') l.
Proof.
  intros Hn. induction l as [|x r IH]; simpl.
  - rewrite es_is_eq. destruct (N.eqb (e_trial e) id'); reflexivity.
  - simpl in Hn. rewrite es_is_eq in Hn. destruct (N.eqb (e_trial x) (e_trial e)) eqn:E1; [discriminate|].
    rewrite !es_is_eq. destruct (N.eqb (e_trial x) id') eqn:E2.
    + destruct (N.eqb (e_trial e) id') eqn:E3; [|reflexivity].
      apply N.eqb_eq in E2. apply N.eqb_eq in E3. apply N.eqb_neq in E1. congruence.
    + apply IH. exact Hn.
Qed.

Lemma find_set_es id' e l : find (es_is id') (set_es e l) =
  if N.eqb (e_trial e) id' then match find (es_is id') l with Some _ => Some e | None => None end else find (es_is id') l.
Proof.
  induction l as [|x r IH]; cbn [set_es find].
  - destruct (N.eqb (e_trial e) id'); reflexivity.
  - destruct (N.eqb (e_trial x) (e_trial e)) eqn:E1; cbn [find]; rewrite !es_is_eq.
    + apply N.eqb_eq in E1. rewrite E1. destruct (N.eqb (e_trial e) id') eqn:E3; reflexivity.
    + destruct (N.eqb (e_trial x) id') eqn:E2.
      * destruct (N.eqb (e_trial e) id') eqn:E3; [|reflexivity].
        apply N.eqb_eq in E2. apply N.eqb_eq in E3. apply N.eqb_neq in E1. congruence.
      * exact IH.
Qed.

(* ---------- the datastore calls of the handler and the invariant *)
Lemma es_inv_node k A s : es_inv k A s -> exists n, get_node k (nodes s) = Some n.
Proof. intros [_ [n [Hn _]]]. exists n. exact Hn. Qed.

Lemma es_inv_upd k A B s n n' : es_inv k A s -> get_node k (nodes s) = Some n ->
  (forall id, active_at n' id = true -> In id B) -> es_inv k B (upd s k n').
Proof.
  intros [Ho [n0 [Hn0 Ha]]] Hn HB. split.
  - intros k' m Hne Hm. rewrite (get_node_upd_other s k k' n' Hne) in Hm. exact (Ho k' m Hne Hm).
  - exists n'. split; [apply (get_node_upd_same s k n n' Hn)|exact HB].
Qed.

Lemma inv_same_es k A s n n' : es_inv k A s -> get_node k (nodes s) = Some n -> n_es n' = n_es n -> es_inv k A (upd s k n').
Proof.
  intros HI Hn He. apply (es_inv_upd k A A s n n' HI Hn). destruct HI as [_ [n0 [Hn0 Ha]]]. assert (n0 = n) by congruence. subst n0.
  intros id H. apply Ha. unfold active_at in *. rewrite He in H. exact H.
Qed.

(* reads *)
Lemma exec_get_es k id s : exists r, exec (CGetEs k id) s = (s, r) /\
  match get_node k (nodes s) with
  | None => r = Err ENotFound
  | Some n => match find (es_is id) (n_es n) with Some e => r = Ok (REs e) | None => r = Err ENotFound end
  end.
Proof.
  cbn [exec]. destruct (get_node k (nodes s)) as [n|]; [|eexists; split; reflexivity].
  change (fun e : esop => N.eqb (e_trial e) id) with (es_is id). destruct (find (es_is id) (n_es n)); eexists; split; reflexivity.
Qed.

(* create: succeeds iff no record of this trial exists; then exactly this id may have become active *)
Lemma exec_create_es k e A s n : es_inv k A s -> get_node k (nodes s) = Some n -> find (es_is (e_trial e)) (n_es n) = None ->
  exists s', exec (CCreateEs k e) s = (s', Ok RUnit) /\ es_inv k (e_trial e :: A) s' /\
    exists n', get_node k (nodes s') = Some n' /\ find (es_is (e_trial e)) (n_es n') = Some e.
Proof.
  intros HI Hn Hf. cbn [exec]. rewrite Hn. rewrite (find_none_existsb _ _ Hf).
  eexists. split; [reflexivity|]. split.
  - apply (es_inv_upd k A _ s n _ HI Hn). cbn [n_es]. intros id H. unfold active_at in H. cbn [n_es] in H.
    rewrite (find_app_new id e (n_es n) Hf) in H. destruct (N.eqb (e_trial e) id) eqn:E.
    + apply N.eqb_eq in E. left. exact E.
    + right. destruct HI as [_ [n0 [Hn0 Ha]]]. assert (n0 = n) by congruence. subst n0. apply Ha. exact H.
  - eexists. split; [apply (get_node_upd_same s k n _ Hn)|]. cbn [n_es]. rewrite (find_app_new _ e (n_es n) Hf), N.eqb_refl. reflexivity.
Qed.

(* update of an existing record *)
Lemma exec_update_es k e A s n e0 : es_inv k A s -> get_node k (nodes s) = Some n -> find (es_is (e_trial e)) (n_es n) = Some e0 ->
  exists s', exec (CUpdateEs k e) s = (s', Ok RUnit) /\
    es_inv k (if e_active e then e_trial e :: A else remove N.eq_dec (e_trial e) A) s' /\
    exists n', get_node k (nodes s') = Some n' /\ find (es_is (e_trial e)) (n_es n') = Some e /\
      (forall id, id <> e_trial e -> find (es_is id) (n_es n') = find (es_is id) (n_es n)).
Proof.
  intros HI Hn Hf. cbn [exec]. rewrite Hn. rewrite (find_existsb _ _ _ Hf).
  eexists. split; [reflexivity|]. split.
  - apply (es_inv_upd k A _ s n _ HI Hn). cbn [n_es]. intros id H. unfold active_at in H. cbn [n_es] in H.
    rewrite find_set_es in H. destruct HI as [_ [n0 [Hn0 Ha]]]. assert (n0 = n) by congruence. subst n0.
    destruct (N.eqb (e_trial e) id) eqn:E.
    + apply N.eqb_eq in E. subst id. rewrite Hf in H. destruct (e_active e); [left; reflexivity|discriminate H].
    + apply N.eqb_neq in E. assert (Hin : In id A) by (apply Ha; exact H).
      destruct (e_active e); [right; exact Hin|]. apply in_in_remove; [intros ->; apply E; reflexivity|exact Hin].
  - eexists. split; [apply (get_node_upd_same s k n _ Hn)|]. cbn [n_es]. split.
    + rewrite find_set_es, N.eqb_refl, Hf. reflexivity.
    + intros id Hne. rewrite find_set_es. destruct (N.eqb (e_trial e) id) eqn:E; [apply N.eqb_eq in E; congruence|reflexivity].
Qed.

(* the metadata update keeps the early-stopping records *)
Lemma exec_update_md_es k smd tmd A s : es_inv k A s -> forall s' r, exec (CUpdateMd k smd tmd) s = (s', r) ->
  es_inv k A s' /\ (forall n, get_node k (nodes s) = Some n -> exists n', get_node k (nodes s') = Some n' /\ n_es n' = n_es n) /\
  (match r with Ok _ => True | Err e => e = ENotFound end).
Proof.
  intros HI s' r H. destruct (es_inv_node k A s HI) as [n Hn]. cbn [exec] in H. rewrite Hn in H.
  destruct (forallb _ tmd).
  - injection H as <- <-. split; [apply (inv_same_es k A s n _ HI Hn); reflexivity|]. split; [|exact I].
    intros n0 Hn0. assert (n0 = n) by congruence. subst n0. eexists. split; [apply (get_node_upd_same s k n _ Hn)|reflexivity].
  - injection H as <- <-. split; [exact HI|]. split; [|reflexivity]. intros n0 Hn0. exists n0. auto.
Qed.

(* ---------- the result of a run leaves no active operation *)
Definition quiet_res (x : state * outcome * list (call * option errclass)) : Prop := es_quiet (fst (fst x)).

(* the loop over the decisions: every record it touches ends inactive, so the set of possibly active ids does not grow *)
Lemma decisions_loop_quiet k A po : forall ds cont s tr,
  es_inv k A s ->
  (forall s1 tr1, es_inv k A s1 ->
     (forall id n n1, get_node k (nodes s) = Some n -> get_node k (nodes s1) = Some n1 ->
        find (es_is id) (n_es n) <> None -> find (es_is id) (n_es n1) <> None) ->
     quiet_res (run cont s1 po tr1)) ->
  quiet_res (run (decisions_loop k ds cont) s po tr).
Proof.
  induction ds as [|[id stop] rest IH]; intros cont s tr HI Hc.
  - cbn [decisions_loop]. apply Hc; [exact HI|]. intros id n n1 Hn Hn1. assert (n1 = n) by congruence. subst. auto.
  - cbn [decisions_loop run]. destruct (exec_get_es k id s) as [r [Hr Hcase]]. rewrite Hr.
    destruct (es_inv_node k A s HI) as [n Hn]. rewrite Hn in Hcase.
    destruct (find (es_is id) (n_es n)) as [e0|] eqn:Ef; subst r.
    + (* the record exists: update it *)
      destruct (exec_update_es k (mkEs id false stop) A s n e0 HI Hn Ef) as [s1 [Hx [HI1 [n1 [Hn1 [Hf1 Hoth]]]]]].
      cbn [run]. rewrite Hx. cbn [expect_unit e_active] in *.
      apply IH; [eapply es_inv_weaken; [|exact HI1]; intros x Hx'; apply in_remove in Hx'; tauto|].
      intros s2 tr2 HI2 Hkeep. apply Hc; [exact HI2|].
      intros id' m m2 Hm Hm2 Hpres. assert (m = n) by congruence. subst m.
      apply (Hkeep id' n1 m2 Hn1 Hm2). cbn [e_trial] in *.
      destruct (N.eq_dec id' id) as [->|Hne]; [rewrite Hf1; discriminate|rewrite (Hoth id' Hne); exact Hpres].
    + (* no record: create it (active), then finish it *)
      cbn [run].
      destruct (exec_create_es k (mkEs id true false) A s n HI Hn Ef) as [s1 [Hx [HI1 [n1 [Hn1 Hf1]]]]].
      rewrite Hx. cbn [expect_unit run e_trial] in *.
      destruct (exec_update_es k (mkEs id false stop) (id :: A) s1 n1 (mkEs id true false) HI1 Hn1 Hf1)
        as [s2 [Hx2 [HI2 [n2 [Hn2 [Hf2 Hoth2]]]]]].
      rewrite Hx2. cbn [expect_unit e_active e_trial] in *.
      apply IH.
      * eapply es_inv_weaken; [|exact HI2]. intros x Hx'. apply in_remove in Hx'. destruct Hx' as [[->|Hx'] Hne]; [congruence|exact Hx'].
      * intros s3 tr3 HI3 Hkeep. apply Hc; [exact HI3|].
        intros id' m m3 Hm Hm3 Hpres. assert (m = n) by congruence. subst m.
        apply (Hkeep id' n2 m3 Hn2 Hm3).
        destruct (N.eq_dec id' id) as [->|Hne]; [rewrite Hf2; discriminate|]. rewrite (Hoth2 id' Hne).
        (* n1 = n with one more record *)
        clear -Hx Hn Hn1 Hpres Ef Hne. cbn [exec] in Hx. rewrite Hn in Hx. cbn [e_trial] in Hx.
        rewrite (find_none_existsb _ _ Ef) in Hx. injection Hx as <-.
        rewrite (get_node_upd_same s k n _ Hn) in Hn1. injection Hn1 as <-. cbn [n_es].
        rewrite (find_app_new id' (mkEs id true false) (n_es n) Ef). cbn [e_trial].
        destruct (N.eqb id id'); [discriminate|exact Hpres].
Qed.

Definition not_deliver (po : pythia_out) : Prop := match po with PDeliver _ _ _ => False | _ => True end.

Lemma remove_self id : remove N.eq_dec id [id] = [].
Proof. simpl. destruct (N.eq_dec id id); [reflexivity|congruence]. Qed.

Lemma es_inv_one_inactive k id s n : es_inv k [id] s -> get_node k (nodes s) = Some n -> active_at n id = false -> es_inv k [] s.
Proof.
  intros [Ho [n0 [Hn0 Ha]]] Hn Hi. assert (n0 = n) by congruence. subst n0. split; [exact Ho|]. exists n. split; [exact Hn|].
  intros id' H. destruct (Ha id' H) as [<-|[]]. rewrite Hi in H. discriminate.
Qed.

(* once the operation record of trial id exists and may be active: whatever the algorithm answers, it ends inactive *)
Lemma es_compute_quiet k id po s tr n e0 : es_inv k [id] s -> get_node k (nodes s) = Some n ->
  find (es_is id) (n_es n) = Some e0 -> not_deliver po -> quiet_res (run (es_compute k id) s po tr).
Proof.
  intros HI Hn Hf Hpo. unfold es_compute. cbn [run exec]. rewrite Hn. cbn [run exec]. rewrite Hn. cbn [run].
  destruct po as [sugs smd tmd|ds smd tmd|e]; [destruct Hpo| |].
  - (* decisions *)
    cbn [run]. destruct (exec (CUpdateMd k smd tmd) s) as [s1 r] eqn:Hx.
    destruct (exec_update_md_es k smd tmd [id] s HI s1 r Hx) as [HI1 [Hes Herr]].
    destruct (Hes n Hn) as [n1 [Hn1 Hes1]].
    assert (Hf1 : find (es_is id) (n_es n1) = Some e0) by (rewrite Hes1; exact Hf).
    destruct r as [rv|er].
    + (* stored: run the decisions, then look at this trial's record *)
      apply (decisions_loop_quiet k [id]); [exact HI1|].
      intros s2 tr2 HI2 Hkeep. cbn [run]. destruct (exec_get_es k id s2) as [r2 [Hr2 Hcase]]. rewrite Hr2.
      destruct (es_inv_node k [id] s2 HI2) as [n2 Hn2]. rewrite Hn2 in Hcase.
      assert (Hpres : find (es_is id) (n_es n2) <> None) by (apply (Hkeep id n1 n2 Hn1 Hn2); rewrite Hf1; discriminate).
      destruct (find (es_is id) (n_es n2)) as [e2|] eqn:Ef2; [|congruence]. subst r2.
      destruct (e_active e2) eqn:Eact.
      * destruct (exec_update_es k (mkEs id false (e_stop e2)) [id] s2 n2 e2 HI2 Hn2 Ef2) as [s3 [Hx3 [HI3 _]]].
        cbn [run]. rewrite Hx3. cbn [expect_unit run e_active e_trial] in *. rewrite remove_self in HI3.
        exact (es_inv_nil_quiet k s3 HI3).
      * cbn [run]. apply (es_inv_nil_quiet k s2). apply (es_inv_one_inactive k id s2 n2 HI2 Hn2).
        unfold active_at. rewrite Ef2. exact Eact.
    + (* the metadata cannot be stored: the operation is finished before the error is reported *)
      subst er. cbn [run].
      destruct (exec_update_es k (mkEs id false false) [id] s1 n1 e0 HI1 Hn1 Hf1) as [s3 [Hx3 [HI3 _]]].
      rewrite Hx3. cbn [expect_unit run e_active e_trial] in *. rewrite remove_self in HI3. exact (es_inv_nil_quiet k s3 HI3).
  - (* the algorithm failed *)
    destruct (exec_update_es k (mkEs id false false) [id] s n e0 HI Hn Hf) as [s3 [Hx3 [HI3 _]]].
    cbn [run]. rewrite Hx3. cbn [expect_unit run e_active e_trial] in *. rewrite remove_self in HI3. exact (es_inv_nil_quiet k s3 HI3).
Qed.

Theorem check_early_stop_quiet s rc k id po : es_quiet s -> not_deliver po ->
  quiet_res (run (h_check_early_stop rc k id) s po []).
Proof.
  intros Q Hpo. unfold h_check_early_stop, guard_study, with_trial. cbn [run exec].
  destruct (get_node k (nodes s)) as [n|] eqn:Hn; [|exact Q].
  cbn [run]. destruct (immutable (n_study n)); [exact Q|]. cbn [run exec]. rewrite Hn.
  destruct (get_trial id (n_trials n)) as [t|]; [|exact Q]. cbn [run].
  destruct (negb (trial_mutable t)); [exact Q|]. cbn [run].
  destruct (exec_get_es k id s) as [r [Hr Hcase]]. rewrite Hr. rewrite Hn in Hcase.
  pose proof (quiet_es_inv k n s [] Q Hn) as HI.
  destruct (find (es_is id) (n_es n)) as [e0|] eqn:Ef; subst r.
  - destruct (e_active e0 || negb rc); [exact Q|].
    destruct (exec_update_es k (mkEs id true false) [] s n e0 HI Hn Ef) as [s1 [Hx [HI1 [n1 [Hn1 [Hf1 _]]]]]].
    cbn [run]. rewrite Hx. cbn [expect_unit e_active e_trial] in *.
    exact (es_compute_quiet k id po s1 _ n1 _ HI1 Hn1 Hf1 Hpo).
  - destruct (exec_create_es k (mkEs id true false) [] s n HI Hn Ef) as [s1 [Hx [HI1 [n1 [Hn1 Hf1]]]]].
    cbn [run]. rewrite Hx. cbn [expect_unit e_trial] in *.
    exact (es_compute_quiet k id po s1 _ n1 _ HI1 Hn1 Hf1 Hpo).
Qed.

(* ---------- all other RPCs never touch the early-stopping records *)
Definition es_free (c : call) : bool := match c with CCreateEs _ _ | CUpdateEs _ _ => false | _ => true end.
Definition es_keep (s s' : state) : Prop :=
  forall k' n', In (k', n') (nodes s') -> n_es n' = [] \/ exists n, In (k', n) (nodes s) /\ n_es n = n_es n'.

Lemma es_keep_refl s : es_keep s s.
Proof. intros k n H. right. exists n. auto. Qed.
Lemma es_keep_trans a b c : es_keep a b -> es_keep b c -> es_keep a c.
Proof.
  intros H1 H2 k n Hn. destruct (H2 k n Hn) as [He|[n1 [Hn1 He1]]]; [left; exact He|].
  destruct (H1 k n1 Hn1) as [He|[n0 [Hn0 He0]]]; [left; congruence|right; exists n0; split; [exact Hn0|congruence]].
Qed.
Lemma upd_es_keep s k n n' : get_node k (nodes s) = Some n -> n_es n' = n_es n -> es_keep s (upd s k n').
Proof.
  intros Hg He k' m Hin. unfold upd in Hin. cbn [nodes] in Hin. apply In_set_node in Hin. destruct Hin as [[-> ->]|Hin].
  - right. exists n. split; [apply get_node_In; exact Hg|symmetry; exact He].
  - right. exists m. auto.
Qed.

Lemma exec_es_keep c s s' r : es_free c = true -> exec c s = (s', r) -> es_keep s s'.
Proof.
  intros Hf H. destruct c; simpl in Hf; try discriminate; simpl in H; revert H; exec_cases; intros [= <- <-];
    try apply es_keep_refl; try (eapply upd_es_keep; [eassumption|reflexivity]).
  - intros k' n' Hin. simpl in Hin. apply in_app_or in Hin. destruct Hin as [Hin|[Hin|[]]].
    + right. exists n'. auto.
    + injection Hin as <- <-. left. reflexivity.
  - intros k' n' Hin. simpl in Hin. apply in_app_or in Hin. destruct Hin as [Hin|[Hin|[]]].
    + right. exists n'. auto.
    + injection Hin as <- <-. left. reflexivity.
  - intros k' n' Hin. simpl in Hin. apply In_del_node in Hin. right. exists n'. auto.
Qed.

Lemma es_quiet_keep s s' : wf s -> es_quiet s -> es_keep s s' -> es_quiet s'.
Proof.
  intros [W _] Q K k n Hn id. destruct (K k n (get_node_In _ _ _ Hn)) as [He|[n0 [Hn0 He0]]].
  - unfold active_at. rewrite He. reflexivity.
  - pose proof (Q k n0 (In_get_node k n0 _ W Hn0) id) as H. unfold active_at in *. rewrite <- He0. exact H.
Qed.

Inductive noes : prog -> Prop :=
| ne_ret r : noes (Ret r)
| ne_throw e : noes (Throw e)
| ne_call c k : es_free c = true -> (forall r, noes (k r)) -> noes (Call c k)
| ne_acq l p : noes p -> noes (Acquire l p)
| ne_rel l p : noes p -> noes (Release l p)
| ne_py q k : (forall po, noes (k po)) -> noes (Pythia q k).

Lemma noes_run p : noes p -> forall s po tr s' o tr', run p s po tr = (s', o, tr') -> es_keep s s'.
Proof.
  induction 1 as [r|e|c k Hc Hk IH|l p Hp IH|l p Hp IH|q k Hk IH]; intros s po tr s' o tr' Hr; simpl in Hr.
  - injection Hr as <- _ _. apply es_keep_refl.
  - injection Hr as <- _ _. apply es_keep_refl.
  - destruct (exec c s) as [s1 r] eqn:E. eapply es_keep_trans; [eapply exec_es_keep; eauto|eapply IH; eauto].
  - eapply IH; eauto.
  - eapply IH; eauto.
  - eapply IH; eauto.
Qed.

Ltac ne_step :=
  cbv zeta;
  match goal with
  | |- noes (Ret _) => apply ne_ret
  | |- noes (Throw _) => apply ne_throw
  | |- noes (Call _ _) => apply ne_call; [reflexivity|intros ?]
  | |- noes (Acquire _ _) => apply ne_acq
  | |- noes (Release _ _) => apply ne_rel
  | |- noes (Pythia _ _) => apply ne_py; intros ?
  | |- noes (expect_unit ?r _) => destruct r; cbn [expect_unit]
  | |- noes (match ?x with _ => _ end) => destruct x
  | |- noes (if ?b then _ else _) => destruct b
  end.

Lemma noes_finish_op k o err out : noes (finish_op k o err out).
Proof. unfold finish_op. repeat ne_step. Qed.
Lemma noes_assign_loop k c : forall pool need out cont, (forall o, noes (cont o)) -> noes (assign_loop k c pool need out cont).
Proof.
  induction pool as [|t rest IH]; intros need out cont Hc; destruct need; cbn [assign_loop]; try apply Hc.
  repeat first [apply IH; exact Hc | ne_step].
Qed.
Lemma noes_create_loop k c : forall sugs need out cont, (forall l o, noes (cont l o)) -> noes (create_loop k c sugs need out cont).
Proof.
  induction sugs as [|p rest IH]; intros need out cont Hc; destruct need; cbn [create_loop]; try apply Hc.
  repeat first [apply IH; exact Hc | ne_step].
Qed.
Lemma noes_remain_loop k : forall rem cont, noes cont -> noes (remain_loop k rem cont).
Proof.
  induction rem as [|p rest IH]; intros cont Hc; cbn [remain_loop]; [exact Hc|].
  repeat first [apply IH; exact Hc | ne_step].
Qed.

Lemma noes_handler r : (forall rc k id, r <> CheckEarlyStop rc k id) -> noes (handler r).
Proof.
  intros Hr. destruct r; cbn [handler]; try (exfalso; eapply Hr; reflexivity);
    unfold h_create_study, h_get_study, h_list_studies, h_delete_study, h_set_study_state, h_create_trial, h_get_trial,
      h_list_trials, h_add_measurement, h_complete_trial, h_stop_trial, h_delete_trial, h_suggest, h_update_metadata,
      h_list_optimal, h_get_operation, guard_study, with_trial;
    repeat first [apply noes_finish_op | apply noes_assign_loop; intros ? | apply noes_create_loop; intros ? ?
                 | apply noes_remain_loop | ne_step].
Qed.

(* ---------- the invariant: no ACTIVE early-stopping operation after ANY RPC, however it ends *)
Definition suggest_kind (ro : rpc * pythia_out) : Prop :=
  match fst ro with CheckEarlyStop _ _ _ => not_deliver (snd ro) | _ => True end.

Theorem es_quiet_step s ro : wf s -> es_quiet s -> suggest_kind ro -> es_quiet (step_state s ro) /\ wf (step_state s ro).
Proof.
  intros W Q Hk. destruct ro as [rp po]. unfold step_state, step. cbn [fst snd] in *.
  destruct (run (handler rp) s po []) as [[s1 o1] tr1] eqn:Hr. cbn [fst].
  assert (W1 : wf s1).
  { clear -W Hr. revert Hr. generalize (@nil (call * option errclass)). generalize (handler rp). intros p.
    revert s W. induction p as [r|e|cl kont IH|l p IH|l p IH|q kont IH]; intros s W tr Hr; simpl in Hr.
    - injection Hr as <- _ _. exact W.
    - injection Hr as <- _ _. exact W.
    - destruct (exec cl s) as [s2 r2] eqn:E. eapply IH; [eapply exec_wf; eauto|exact Hr].
    - eapply IH; eauto.
    - eapply IH; eauto.
    - eapply IH; eauto. }
  split; [|exact W1].
  destruct rp;
    try (match type of Hr with run (handler ?R) _ _ _ = _ =>
           assert (Hne : noes (handler R)) by (apply noes_handler; intros; discriminate);
           eapply es_quiet_keep; [exact W|exact Q|exact (noes_run _ Hne _ _ _ _ _ _ Hr)] end).
  match type of Hr with run (handler (CheckEarlyStop ?rc ?k ?id)) _ _ _ = _ =>
    cbn [handler] in Hr; pose proof (check_early_stop_quiet s rc k id po Q Hk) as H; unfold quiet_res in H; rewrite Hr in H; exact H end.
Qed.

Theorem es_quiet_history ops : Forall suggest_kind ops ->
  es_quiet (run_all ops init_state) /\ wf (run_all ops init_state).
Proof.
  assert (H : forall s, wf s -> es_quiet s -> Forall suggest_kind ops -> es_quiet (run_all ops s) /\ wf (run_all ops s)).
  { induction ops as [|ro rest IH]; intros s W Q HF; [simpl; auto|]. unfold run_all. cbn [fold_left].
    inversion HF as [|? ? Hk HF']; subst. destruct (es_quiet_step s ro W Q Hk) as [Q1 W1]. apply IH; assumption. }
  intros HF. apply H; [exact (proj1 wf_init)| |exact HF]. intros k n Hn. simpl in Hn. discriminate.
Qed.

(* in a quiet state a (recycling) check reaches the algorithm: a failing algorithm's error is what the caller gets *)
Theorem check_early_stop_reaches s k n id t e : es_quiet s -> get_node k (nodes s) = Some n -> immutable (n_study n) = false ->
  get_trial id (n_trials n) = Some t -> trial_mutable t = true ->
  exists s', step s (CheckEarlyStop true k id, PFail e) = (s', Failed e) /\ es_quiet s'.
Proof.
  intros Q Hn Him Ht Hm.
  pose proof (check_early_stop_quiet s true k id (PFail e) Q I) as HQ. unfold quiet_res in HQ.
  unfold step. cbn [fst snd handler]. revert HQ.
  unfold h_check_early_stop, guard_study, with_trial. cbn [run exec]. rewrite Hn. cbn [run]. rewrite Him. cbn [run exec]. rewrite Hn, Ht.
  cbn [run]. rewrite Hm. cbn [negb run].
  destruct (exec_get_es k id s) as [r [Hr Hcase]]. rewrite Hr. rewrite Hn in Hcase.
  pose proof (quiet_es_inv k n s [] Q Hn) as HI.
  destruct (find (es_is id) (n_es n)) as [e0|] eqn:Ef; subst r.
  - assert (Ha : e_active e0 = false). { pose proof (Q k n Hn id) as H. unfold active_at in H. rewrite Ef in H. exact H. }
    rewrite Ha. cbn [orb negb].
    destruct (exec_update_es k (mkEs id true false) [] s n e0 HI Hn Ef) as [s1 [Hx [HI1 [n1 [Hn1 [Hf1 _]]]]]].
    cbn [run]. rewrite Hx. cbn [expect_unit e_active e_trial] in *.
    unfold es_compute. cbn [run exec]. rewrite Hn1. cbn [run exec]. rewrite Hn1. cbn [run].
    destruct (exec_update_es k (mkEs id false false) [id] s1 n1 _ HI1 Hn1 Hf1) as [s3 [Hx3 _]].
    rewrite Hx3. cbn [expect_unit run fst]. intros HQ. exists s3. split; [reflexivity|exact HQ].
  - destruct (exec_create_es k (mkEs id true false) [] s n HI Hn Ef) as [s1 [Hx [HI1 [n1 [Hn1 Hf1]]]]].
    cbn [run]. rewrite Hx. cbn [expect_unit e_trial] in *.
    unfold es_compute. cbn [run exec]. rewrite Hn1. cbn [run exec]. rewrite Hn1. cbn [run].
    destruct (exec_update_es k (mkEs id false false) [id] s1 n1 _ HI1 Hn1 Hf1) as [s3 [Hx3 _]].
    rewrite Hx3. cbn [expect_unit run fst]. intros HQ. exists s3. split; [reflexivity|exact HQ].
Qed.
