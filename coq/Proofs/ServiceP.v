From VZ Require Import Base.Prelude Base.XFloat Model.Metadata Model.Service.

(* result of an RPC without the trace *)
Definition st_out (x : state * outcome * list (call * option errclass)) : state * outcome := (fst (fst x), snd (fst x)).
Lemma step_run s r po : step s (r, po) = st_out (run (handler r) s po []).
Proof. unfold step, st_out. simpl. destruct (run (handler r) s po []) as [[s' o] tr]. reflexivity. Qed.


Lemma get_trial_id id l t : get_trial id l = Some t -> t_id t = id.
Proof.
  induction l as [|x r IH]; simpl; [discriminate|]. destruct (N.eqb_spec (t_id x) id); [intros [=]; subst; auto|exact IH].
Qed.

Ltac svc_step := cbn [handler h_create_study h_get_study h_list_studies h_delete_study h_set_study_state h_create_trial
  h_suggest h_get_trial h_list_trials h_add_measurement h_complete_trial h_stop_trial h_delete_trial h_check_early_stop
  h_update_metadata h_list_optimal h_get_operation guard_study with_trial expect_unit run exec st_out fst snd negb
  t_id t_state set_state].
Ltac svc_rw := repeat match goal with
  | H : get_node _ _ = _ |- _ => rewrite H
  | H : get_trial _ _ = _ |- _ => rewrite H
  | H : immutable _ = _ |- _ => rewrite H
  | H : trial_mutable _ = _ |- _ => rewrite H
  | H : tstate_eqb _ _ = _ |- _ => rewrite H
  | H : t_state _ = _ |- _ => rewrite H
  | H : t_id _ = _ |- _ => rewrite H
  end.
Ltac svc_go := repeat progress (svc_step; svc_rw).

Definition completed (st : tstate) : bool := tstate_eqb st SUCCEEDED || tstate_eqb st INFEASIBLE.
Definition rank (st : tstate) : nat :=
  match st with REQUESTED => 0 | ACTIVE => 1 | STOPPING => 2 | SUCCEEDED | INFEASIBLE => 3 end.
(* the documented graph REQUESTED -> ACTIVE -> (STOPPING ->) SUCCEEDED | INFEASIBLE, reflexive *)
Definition legal (a b : tstate) : bool := tstate_eqb a b || (negb (completed a) && Nat.ltb (rank a) (rank b)).
(* allowed change of one stored trial by one call *)
Definition trans_ok (t t' : trial) : Prop :=
  t_id t' = t_id t /\ t_params t' = t_params t /\ legal (t_state t) (t_state t') = true /\
  (completed (t_state t) = true -> t_state t' = t_state t /\ t_meas t' = t_meas t /\ t_final t' = t_final t) /\
  (* ownership: only a queued (REQUESTED) trial can be given to a worker; afterwards the owner never changes *)
  (t_state t <> REQUESTED -> t_client t' = t_client t).

(* which study a call addresses, which RPCs mutate *)
Definition rpc_key (r : rpc) : option skey :=
  match r with
  | CreateStudy _ _ _ _ | ListStudies _ => None
  | GetStudy k | DeleteStudy k | SetStudyState k _ | CreateTrial k _ | SuggestTrials k _ _ | GetTrial k _ | ListTrials k
  | AddTrialMeasurement k _ _ | CompleteTrial k _ _ _ | StopTrial k _ | DeleteTrial k _ | CheckEarlyStop _ k _
  | UpdateMetadata k _ _ | ListOptimalTrials k | GetOperation k _ _ => Some k
  end.
Definition mutating (r : rpc) : bool :=
  match r with
  | CreateTrial _ _ | SuggestTrials _ _ _ | AddTrialMeasurement _ _ _ | CompleteTrial _ _ _ _ | StopTrial _ _
  | DeleteTrial _ _ | CheckEarlyStop _ _ _ | UpdateMetadata _ _ _ => true
  | _ => false
  end.
Definition rpc_trial (r : rpc) : option N :=
  match r with
  | GetTrial _ id | AddTrialMeasurement _ id _ | CompleteTrial _ id _ _ | StopTrial _ id | DeleteTrial _ id
  | CheckEarlyStop _ _ id => Some id
  | _ => None
  end.

(* ---- any call on a missing study fails with NotFound and changes nothing *)
Lemma missing_study s r po k : rpc_key r = Some k -> get_node k (nodes s) = None ->
  step s (r, po) = (s, Failed ENotFound).
Proof.
  intros Hk Hn. rewrite step_run.
  destruct r; simpl in Hk; try discriminate; injection Hk as <-; svc_go; reflexivity.
Qed.

(* ---- any mutation of a study that is not active fails with ImmutableStudy and changes nothing *)
Lemma immutable_study s r po k n : rpc_key r = Some k -> mutating r = true ->
  get_node k (nodes s) = Some n -> immutable (n_study n) = true ->
  step s (r, po) = (s, Failed EImmutableStudy).
Proof.
  intros Hk Hm Hn Hi. rewrite step_run.
  destruct r; simpl in Hk, Hm; try discriminate; injection Hk as <-; svc_go; reflexivity.
Qed.

(* ---- a call naming a missing trial fails with NotFound and changes nothing *)
Lemma missing_trial s r po k n id : rpc_key r = Some k -> rpc_trial r = Some id ->
  get_node k (nodes s) = Some n -> immutable (n_study n) = false -> get_trial id (n_trials n) = None ->
  step s (r, po) = (s, Failed ENotFound).
Proof.
  intros Hk Ht Hn Hi Hg. rewrite step_run.
  destruct r; simpl in Hk, Ht; try discriminate; injection Hk as <-; injection Ht as <-; svc_go; reflexivity.
Qed.

(* ---- completing / early-stop-checking a trial that is not ACTIVE/STOPPING: ImmutableTrial, nothing changes *)
Lemma complete_immutable_trial s k n id t final inf po :
  get_node k (nodes s) = Some n -> immutable (n_study n) = false -> get_trial id (n_trials n) = Some t ->
  trial_mutable t = false ->
  step s (CompleteTrial k id final inf, po) = (s, Failed EImmutableTrial).
Proof.
  intros Hn Hi Hg Hm. rewrite step_run. svc_go. reflexivity.
Qed.

Lemma earlystop_immutable_trial s k n id t rc po :
  get_node k (nodes s) = Some n -> immutable (n_study n) = false -> get_trial id (n_trials n) = Some t ->
  trial_mutable t = false ->
  step s (CheckEarlyStop rc k id, po) = (s, Failed EImmutableTrial).
Proof.
  intros Hn Hi Hg Hm. rewrite step_run. svc_go. reflexivity.
Qed.

Lemma measure_immutable_trial s k n id t m po :
  get_node k (nodes s) = Some n -> immutable (n_study n) = false -> get_trial id (n_trials n) = Some t ->
  trial_mutable t = false ->
  step s (AddTrialMeasurement k id m, po) =
    (s, if tstate_eqb (t_state t) INFEASIBLE then Done (RpTrial t) else Failed EImmutableTrial).
Proof.
  intros Hn Hi Hg Hm. rewrite step_run. svc_go.
  destruct (tstate_eqb (t_state t) INFEASIBLE); svc_go; reflexivity.
Qed.

Lemma stop_non_active_trial s k n id t po :
  get_node k (nodes s) = Some n -> immutable (n_study n) = false -> get_trial id (n_trials n) = Some t ->
  t_state t <> ACTIVE ->
  step s (StopTrial k id, po) =
    (s, match t_state t with STOPPING | SUCCEEDED => Done (RpTrial t) | _ => Failed EImmutableTrial end).
Proof.
  intros Hn Hi Hg Hm. rewrite step_run. svc_go.
  destruct (t_state t) eqn:Es; svc_go; try reflexivity. congruence.
Qed.

(* ---- legal trial-level calls: the explicit successor state; exactly one trial is rewritten, by a legal transition *)
Definition put_trial (s : state) (k : skey) (n : node) (t' : trial) : state :=
  upd s k (mkN (n_study n) (set_trial t' (n_trials n)) (n_ops n) (n_es n)).

Lemma complete_effect s k n id t final inf po :
  get_node k (nodes s) = Some n -> immutable (n_study n) = false -> get_trial id (n_trials n) = Some t ->
  trial_mutable t = true -> (final <> [] \/ inf = true \/ t_meas t <> []) ->
  exists t', step s (CompleteTrial k id final inf, po) = (put_trial s k n t', Done (RpTrial t')) /\
             trans_ok t t' /\ t_meas t' = t_meas t /\ t_md t' = t_md t /\ t_client t' = t_client t /\
             t_state t' = (if inf then INFEASIBLE else SUCCEEDED).
Proof.
  intros Hn Hi Hg Hm Hf.
  assert (Hid : t_id t = id) by (apply (get_trial_id id (n_trials n) t Hg)).
  set (fin := match final with _ :: _ => final | [] => if inf then t_final t else last (t_meas t) [] end).
  set (t' := mkT (t_id t) (if inf then INFEASIBLE else SUCCEEDED) (t_client t) (t_params t) (t_meas t) fin (t_md t)).
  exists t'. split; [|split; [|repeat split]].
  - rewrite step_run. subst t' fin. svc_go.
    destruct final as [|f0 fs]; [destruct inf; [|destruct (t_meas t) eqn:Em; [destruct Hf as [H|[H|H]]; congruence|]]|];
      svc_go; reflexivity.
  - unfold trans_ok, t'. cbn [t_id t_params t_state t_meas t_final]. unfold trial_mutable, legal, completed in *.
    repeat split; auto; destruct (t_state t); destruct inf; simpl in *; auto; try discriminate; intros; discriminate.
Qed.

Lemma measure_effect s k n id t m po :
  get_node k (nodes s) = Some n -> immutable (n_study n) = false -> get_trial id (n_trials n) = Some t ->
  trial_mutable t = true ->
  let t' := mkT (t_id t) (t_state t) (t_client t) (t_params t) (t_meas t ++ [m]) (t_final t) (t_md t) in
  step s (AddTrialMeasurement k id m, po) = (put_trial s k n t', Done (RpTrial t')) /\ trans_ok t t'.
Proof.
  intros Hn Hi Hg Hm t'. assert (Hid : t_id t = id) by (apply (get_trial_id id (n_trials n) t Hg)). split.
  - assert (E : tstate_eqb (t_state t) INFEASIBLE = false) by (unfold trial_mutable in Hm; destruct (t_state t); simpl in *; auto; discriminate).
    rewrite step_run. subst t'. svc_go. reflexivity.
  - unfold trans_ok, t'. cbn [t_id t_params t_state t_meas t_final]. unfold trial_mutable, legal, completed in *.
    repeat split; auto; destruct (t_state t); simpl in *; auto; try discriminate; intros; discriminate.
Qed.

Lemma stop_effect s k n id t po :
  get_node k (nodes s) = Some n -> immutable (n_study n) = false -> get_trial id (n_trials n) = Some t ->
  t_state t = ACTIVE ->
  step s (StopTrial k id, po) = (put_trial s k n (set_state t STOPPING), Done (RpTrial (set_state t STOPPING))) /\
  trans_ok t (set_state t STOPPING).
Proof.
  intros Hn Hi Hg Hm. assert (Hid : t_id t = id) by (apply (get_trial_id id (n_trials n) t Hg)). split.
  - rewrite step_run. unfold put_trial. svc_go. reflexivity.
  - unfold trans_ok, set_state. cbn [t_id t_params t_state t_meas t_final]. rewrite Hm. repeat split; auto; discriminate.
Qed.

(* rewriting one trial leaves every other trial exactly as it was *)
Lemma get_set_trial_other t' l id : id <> t_id t' -> get_trial id (set_trial t' l) = get_trial id l.
Proof.
  intros Hne. induction l as [|x r IH]; simpl; auto.
  destruct (N.eqb_spec (t_id x) (t_id t')) as [E|E]; simpl.
  - destruct (N.eqb_spec (t_id t') id); [congruence|]. destruct (N.eqb_spec (t_id x) id); [congruence|]. reflexivity.
  - destruct (N.eqb_spec (t_id x) id); auto.
Qed.
Lemma get_set_trial_same t' l t0 : get_trial (t_id t') l = Some t0 -> get_trial (t_id t') (set_trial t' l) = Some t'.
Proof.
  induction l as [|x r IH]; simpl; [discriminate|].
  destruct (N.eqb_spec (t_id x) (t_id t')) as [E|E]; simpl.
  - intros _. rewrite N.eqb_refl. reflexivity.
  - destruct (N.eqb_spec (t_id x) (t_id t')); [congruence|]. exact IH.
Qed.
Lemma skey_eqb_refl k : skey_eqb k k = true.
Proof. unfold skey_eqb. rewrite !N.eqb_refl. reflexivity. Qed.
Lemma skey_eqb_eq a b : skey_eqb a b = true -> a = b.
Proof. destruct a, b. unfold skey_eqb. simpl. intros H. apply andb_prop in H. destruct H as [H1 H2].
  apply N.eqb_eq in H1, H2. congruence. Qed.
Lemma get_set_node_same k n l n0 : get_node k l = Some n0 -> get_node k (set_node k n l) = Some n.
Proof.
  induction l as [|[k' n'] r IH]; simpl; [discriminate|].
  destruct (skey_eqb k' k) eqn:E; simpl; rewrite E; auto.
Qed.
Lemma get_set_node_other k k2 n l : skey_eqb k k2 = false -> get_node k2 (set_node k n l) = get_node k2 l.
Proof.
  intros Hne. induction l as [|[k' n'] r IH]; simpl; auto.
  destruct (skey_eqb k' k) eqn:E; simpl.
  - apply skey_eqb_eq in E. subst k'. rewrite Hne. reflexivity.
  - destruct (skey_eqb k' k2); auto.
Qed.

(* after put_trial: the addressed trial reads t', every other trial of every study reads as before *)
Lemma put_trial_frame s k n t' t0 : get_node k (nodes s) = Some n -> get_trial (t_id t') (n_trials n) = Some t0 ->
  (exists n', get_node k (nodes (put_trial s k n t')) = Some n' /\ n_study n' = n_study n /\ n_ops n' = n_ops n /\
              n_es n' = n_es n /\ get_trial (t_id t') (n_trials n') = Some t' /\
              forall id, id <> t_id t' -> get_trial id (n_trials n') = get_trial id (n_trials n)) /\
  (forall k2, skey_eqb k k2 = false -> get_node k2 (nodes (put_trial s k n t')) = get_node k2 (nodes s)) /\
  owners (put_trial s k n t') = owners s.
Proof.
  intros Hn Hg. unfold put_trial, upd. cbn [nodes owners]. split; [|split; auto].
  - eexists. split; [apply (get_set_node_same k _ _ n Hn)|]. cbn [n_study n_ops n_es n_trials]. repeat split; auto.
    + apply (get_set_trial_same t' _ t0 Hg).
    + intros id Hne. apply get_set_trial_other; auto.
  - intros k2 Hne. apply get_set_node_other; auto.
Qed.

(* ---------------------------------------------------------------- fresh ids (C02) *)
Lemma fold_max_ge l : forall m, (m <= fold_left (fun m t => N.max m (t_id t)) l m)%N.
Proof. induction l as [|x r IH]; simpl; intros m; [lia|]. specialize (IH (N.max m (t_id x))). lia. Qed.
Lemma fold_max_mono l : forall m m', (m <= m')%N ->
  (fold_left (fun m t => N.max m (t_id t)) l m <= fold_left (fun m t => N.max m (t_id t)) l m')%N.
Proof. induction l as [|x r IH]; simpl; intros m m' H; [lia|]. apply IH. lia. Qed.
Lemma max_id_bound l t : In t l -> (t_id t <= max_id l)%N.
Proof.
  unfold max_id. generalize 0%N. induction l as [|x r IH]; intros m Hin; [destruct Hin|]. destruct Hin as [->|Hin]; simpl.
  - pose proof (fold_max_ge r (N.max m (t_id t))). lia.
  - apply IH; auto.
Qed.
Lemma get_trial_in id l t : get_trial id l = Some t -> In t l.
Proof. induction l as [|x r IH]; simpl; [discriminate|]. destruct (N.eqb (t_id x) id); [intros [=]; auto|auto]. Qed.
Lemma fresh_id_absent l : get_trial (max_id l + 1) l = None.
Proof.
  destruct (get_trial (max_id l + 1) l) as [t|] eqn:E; auto.
  pose proof (get_trial_id _ _ _ E). apply get_trial_in in E. apply max_id_bound in E. lia.
Qed.
Lemma max_id_app l t : max_id (l ++ [t]) = N.max (max_id l) (t_id t).
Proof. unfold max_id. rewrite fold_left_app. reflexivity. Qed.

(* creating a trial numbered max+1 always succeeds, appends it, and raises the maximum by exactly one *)
Lemma create_fresh s k n t : get_node k (nodes s) = Some n -> t_id t = (max_id (n_trials n) + 1)%N ->
  exec (CCreateTrial k t) s = (upd s k (mkN (n_study n) (n_trials n ++ [t]) (n_ops n) (n_es n)), Ok RUnit) /\
  max_id (n_trials n ++ [t]) = (max_id (n_trials n) + 1)%N /\
  (forall t0, In t0 (n_trials n) -> (t_id t0 < t_id t)%N).
Proof.
  intros Hn Hid. cbn [exec]. rewrite Hn, Hid, fresh_id_absent. split; [reflexivity|]. split.
  - rewrite max_id_app, Hid. lia.
  - intros t0 Hin. apply max_id_bound in Hin. lia.
Qed.

(* ---------------------------------------------------------------- reporting (C06) *)
Lemma existsb_set_op o l : existsb (op_is (o_client o) (o_num o)) l = true ->
  find (op_is (o_client o) (o_num o)) (set_op o l) = Some o.
Proof.
  induction l as [|x r IH]; simpl; [discriminate|].
  destruct (op_is (o_client o) (o_num o) x) eqn:E; simpl.
  - intros _. unfold op_is. rewrite !N.eqb_refl. reflexivity.
  - rewrite E. exact IH.
Qed.

(* finish_op: whenever the operation exists, the call ends with a *done* operation that is also what is stored *)
Lemma finish_op_done s k n o err out po tr :
  get_node k (nodes s) = Some n -> existsb (op_is (o_client o) (o_num o)) (n_ops n) = true ->
  let o' := mkOp (o_client o) (o_num o) true err out in
  exists s' tr', run (finish_op k o err out) s po tr = (s', Done (RpOp o'), tr') /\
    (exists n', get_node k (nodes s') = Some n' /\ find (op_is (o_client o) (o_num o)) (n_ops n') = Some o' /\
                n_trials n' = n_trials n /\ n_study n' = n_study n).
Proof.
  intros Hn He o'. unfold finish_op. cbn [run exec o_client o_num]. rewrite Hn. fold o'.
  change (o_client o') with (o_client o). change (o_num o') with (o_num o). rewrite He. cbn [run expect_unit].
  eexists. eexists. split; [reflexivity|]. unfold upd. cbn [nodes].
  eexists. split; [apply (get_set_node_same k _ _ n Hn)|]. cbn [n_ops n_trials n_study]. split; auto.
  apply (existsb_set_op o'). exact He.
Qed.

(* an unfinished operation of this client is returned as it is: no algorithm call, no state change *)
Lemma unfinished_returned s k n c count po o rest :
  get_node k (nodes s) = Some n -> immutable (n_study n) = false ->
  filter (fun o => negb (o_done o)) (filter (fun o => N.eqb (o_client o) c) (n_ops n)) = o :: rest ->
  step s (SuggestTrials k c count, po) = (s, Done (RpOp o)).
Proof.
  intros Hn Hi Hf. rewrite step_run. svc_go.
  destruct (filter (fun o0 => N.eqb (o_client o0) c) (n_ops n)) as [|x l] eqn:E; [simpl in Hf; discriminate|].
  cbn [run]. rewrite Hf. reflexivity.
Qed.

(* ---------------------------------------------------------------- backend agreement (C07) *)
(* RAM numbers the next operation len+1, SQL max+1: equal whenever a client's operations are numbered 1..k *)
Fixpoint numbered_from (i : N) (l : list sop) : Prop :=
  match l with [] => True | o :: r => o_num o = i /\ numbered_from (i + 1) r end.
Lemma numbered_max l : forall i, numbered_from (i + 1) l ->
  fold_left (fun m o => N.max m (o_num o)) l i = (i + N.of_nat (length l))%N.
Proof.
  induction l as [|o r IH]; intros i H; simpl; [lia|]. destruct H as [Ho Hr].
  rewrite Ho. replace (N.max i (i + 1)) with (i + 1)%N by lia. rewrite IH by exact Hr. lia.
Qed.
Lemma len_eq_max l : numbered_from 1 l ->
  N.of_nat (length l) = fold_left (fun m o => N.max m (o_num o)) l 0%N.
Proof. intros H. rewrite (numbered_max l 0 H). lia. Qed.

(* delete + re-create under the same name gives a completely fresh study on the model both backends refine *)
Lemma get_del_node_same k l : (forall k' n', In (k', n') l -> True) ->
  get_node k (del_node k l) = None \/ exists n, get_node k (del_node k l) = Some n.
Proof. intros _. destruct (get_node k (del_node k l)); eauto. Qed.
