From VZ Require Import Base.Prelude Model.Restart Proofs.RestartP Model.GridIR Gen.GridSrc.

(* dump -> a fresh instance (whatever it was built with) -> load gives back the dumped instance, ordering included *)
Theorem src_grid_restart_exact : forall fresh s, consistent s ->
  interp_load src_grid fresh (interp_dump (gs_dump src_grid) s) = Some s.
Proof.
  intros fresh [i sd o] Hc. unfold consistent in Hc; simpl in Hc; subst o.
  unfold interp_load, src_grid.
  cbn [gs_load gs_dump gs_sets_index gs_sets_seed gs_order interp_dump enc_field gf_index gf_seed gf_order].
  cbn [interp_reads md_get].
  assert (E1 : str_eqb k_current_index k_current_index = true) by (apply str_eqb_refl).
  assert (E2 : str_eqb k_current_index k_shuffle_seed = false) by (vm_compute; reflexivity).
  assert (E3 : str_eqb k_shuffle_seed k_shuffle_seed = true) by (apply str_eqb_refl).
  rewrite E1. rewrite py_int_str. cbn [interp_reads md_get gr_index gr_seed].
  rewrite E2, E3. rewrite py_optint_str. cbn [interp_reads gr_index gr_seed].
  destruct (Z.ltb (Z.of_N i) 0) eqn:E; [apply Z.ltb_lt in E; lia|].
  rewrite N2Z.id. reflexivity.
Qed.

(* the dump is the model's dump *)
Lemma src_grid_dump_is_model : forall s,
  interp_dump (gs_dump src_grid) s =
  [(k_current_index, fst (grid_dump {| g_index := gf_index s; g_seed := gf_seed s |}));
   (k_shuffle_seed, snd (grid_dump {| g_index := gf_index s; g_seed := gf_seed s |}))].
Proof. intros s. reflexivity. Qed.
