(* C06: along EVERY history - whatever the outcomes of the RPCs, normal or erroneous - no suggestion operation is left
   unfinished.  (Strengthens never_wedged_history, which assumed that every RPC ended normally: the functional theorem of
   SuggestTrials shows that it cannot end with an error once its operation record exists.) *)
From VZ Require Import Base.Prelude Base.XFloat Model.Metadata Model.Service Proofs.ServiceP Proofs.WedgeP Proofs.StickyP
                       Proofs.NumberedP Proofs.FrameP Proofs.SuggestSpecP.
From Coq Require Import Lia.

Definition suggest_answer_ok (ro : rpc * pythia_out) : Prop :=
  match fst ro with SuggestTrials _ _ _ => not_decide (snd ro) | _ => True end.

Record inv (s : state) : Prop := mkInv { inv_wf : wf s; inv_wft : wf_t s; inv_num : numbered s; inv_done : all_done s }.

Lemma step_inv s ro : inv s -> suggest_answer_ok ro -> inv (step_state s ro).
Proof.
  intros [W Wt Nm A] Hok.
  destruct (numbered_step s ro W Nm) as [Nm' W'].
  assert (Wt' : wf_t (step_state s ro)).
  { destruct ro as [rp po]. unfold step_state, step. cbn [fst snd].
    destruct (run (handler rp) s po []) as [[s1 o1] tr1] eqn:Hr. cbn [fst]. exact (proj2 (run_wf_all _ _ _ _ _ _ _ W Wt Hr)). }
  constructor; auto.
  destruct ro as [rp po].
  assert (Hother : (forall k c n, rp <> SuggestTrials k c n) -> all_done (step_state s (rp, po))).
  { intros Hne. unfold step_state, step. cbn [fst snd]. destruct (run (handler rp) s po []) as [[s1 o1] tr1] eqn:Hr. cbn [fst].
    eapply all_done_sub; [exact A|]. exact (proj1 (nosop_run _ (nosop_handler rp Hne) _ _ _ _ _ _ Hr)). }
  destruct rp; try (apply Hother; intros; discriminate).
  (* SuggestTrials *)
  cbn [suggest_answer_ok fst snd] in Hok.
  destruct (get_node k (nodes s)) as [n|] eqn:Hg.
  - destruct (immutable (n_study n)) eqn:Him.
    + unfold step_state. rewrite (immutable_study s (SuggestTrials k c count) po k n eq_refl eq_refl Hg Him). exact A.
    + assert (Hready : suggest_ready s k n c).
      { split; [exact Hg|]. split; [exact Him|]. split; [|split].
        - intros o Ho. apply filter_In in Ho. destruct Ho as [Ho _]. exact (A k n o (get_node_In _ _ _ Hg) Ho).
        - apply (Nm k n c). apply get_node_In. exact Hg.
        - exact (Wt k n Hg). }
      destruct (suggest_clauses s k n c count po Hready Hok) as [s' [o [n' [Hstep _]]]].
      unfold step_state. rewrite Hstep. cbn [fst]. exact (proj1 (never_wedged s _ s' _ W A Hstep)).
  - unfold step_state. rewrite (missing_study s (SuggestTrials k c count) po k eq_refl Hg). exact A.
Qed.

Theorem always_done ops : Forall suggest_answer_ok ops -> inv (run_all ops init_state).
Proof.
  assert (H : forall s, inv s -> Forall suggest_answer_ok ops -> inv (run_all ops s)).
  { induction ops as [|ro rest IH]; intros s I HF; [exact I|]. unfold run_all. cbn [fold_left].
    inversion HF as [|? ? Hk HF']; subst. apply IH; [apply step_inv; assumption|exact HF']. }
  intros HF. apply H; [|exact HF]. destruct wf_init as [W A]. constructor; auto.
  - intros k n Hn. simpl in Hn. discriminate.
  - intros k n c Hin. simpl in Hin. destruct Hin.
Qed.

(* ... and therefore SuggestTrials on an existing active study never fails and always returns a finished operation *)
Theorem suggest_never_fails ops k n c count po : Forall suggest_answer_ok ops -> not_decide po ->
  let s := run_all ops init_state in
  get_node k (nodes s) = Some n -> immutable (n_study n) = false ->
  exists s' o, step s (SuggestTrials k c count, po) = (s', Done (RpOp o)) /\ o_done o = true /\ o_client o = c.
Proof.
  intros HF Hpo s Hg Him. destruct (always_done ops HF) as [W Wt Nm A]. fold s in W, Wt, Nm, A.
  assert (Hready : suggest_ready s k n c).
  { split; [exact Hg|]. split; [exact Him|]. split; [|split].
    - intros o Ho. apply filter_In in Ho. destruct Ho as [Ho _]. exact (A k n o (get_node_In _ _ _ Hg) Ho).
    - apply (Nm k n c). apply get_node_In. exact Hg.
    - exact (Wt k n Hg). }
  destruct (suggest_clauses s k n c count po Hready Hpo) as [s' [o [n' [Hstep [_ [Hd [Hc _]]]]]]].
  exists s', o. auto.
Qed.
