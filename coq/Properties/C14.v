(* C14 — seeded algorithms and benchmark runs are reproducible. *)
From VZ Require Import Base.Prelude Model.Seeded Gen.RngSites Proofs.SeededP.

(* what the source says today (Gen/RngSites.v, regenerated on every run): every stream that a designer's constructor
   builds is seeded from the seed / rng argument (or from a stream that is), every stream that load() builds is seeded from
   the dump, no method reads the clock or a global generator for anything but timing strings, and the seed argument
   reaches a stream of every randomised designer *)
Theorem C14_every_stream_is_seeded :
  forallb class_ok rng_classes = true /\ forallb class_uses_seed rng_classes = true /\ length rng_classes = 10%nat /\
  policy_first_designer_gets_seed = true.
Proof. repeat split; reflexivity. Qed.
Print Assumptions C14_every_stream_is_seeded.

(* consequence for any designer whose behaviour depends on the ambient (clock, global generators, OS entropy, stale
   attributes) only through the seeds of its streams: same seed, same history => same output, whatever the ambient *)
Theorem C14_same_seed_same_run :
  forall (Hist Out : Type) (behave : list Z -> Hist -> Out) (derive : Z -> Z) c z h a1 a2, In c rng_classes ->
  behave (init_seeds derive c (Some z) a1) h = behave (init_seeds derive c (Some z) a2) h.
Proof.
  intros Hist Out behave derive c z h a1 a2 Hin. apply run_reproducible.
  destruct C14_every_stream_is_seeded as [H _]. rewrite forallb_forall in H. apply H. exact Hin.
Qed.
Print Assumptions C14_same_seed_same_run.

Theorem C14_seed_is_used : forall derive c z1 z2 a, In c rng_classes -> z1 <> z2 ->
  init_seeds derive c (Some z1) a <> init_seeds derive c (Some z2) a.
Proof.
  intros derive c z1 z2 a Hin Hz. apply seed_is_used; [|exact Hz].
  destruct C14_every_stream_is_seeded as [_ [H _]]. rewrite forallb_forall in H. apply H. exact Hin.
Qed.
Print Assumptions C14_seed_is_used.

(* the restore path (a fresh designer from the factory, then load(); what the Pythia service does on every request):
   reproducible for every designer whose load() rebuilds all its streams from the dump.  NSGA-II is the exception today:
   its sampler / mutation generators are neither dumped nor re-seeded (known finding C14-nsga2-restore-unseeded). *)
Definition s_nsga2 : str := [110; 115; 103; 97; 50]%N.
Theorem C14_restore_path_partial : forall c, In c rng_classes ->
  restore_ok c policy_restore_passes_seed = true \/ rc_name c = s_nsga2.
Proof.
  intros c Hin. simpl in Hin.
  repeat (destruct Hin as [<-|Hin]; [first [left; reflexivity | right; reflexivity]|]). contradiction.
Qed.
Print Assumptions C14_restore_path_partial.

Theorem C14_restored_same_seed_same_run :
  forall (Hist Out : Type) (behave : list Z -> Hist -> Out) (derive : Z -> Z) c z dumped h a1 a2, In c rng_classes ->
  rc_has_load c = true -> rc_name c <> s_nsga2 ->
  behave (restored_seeds derive c policy_restore_passes_seed (Some z) dumped a1) h =
  behave (restored_seeds derive c policy_restore_passes_seed (Some z) dumped a2) h.
Proof.
  intros Hist Out behave derive c z dumped h a1 a2 Hin Hl Hn. apply restored_run_reproducible.
  - destruct C14_every_stream_is_seeded as [H _]. rewrite forallb_forall in H. apply H. exact Hin.
  - destruct (C14_restore_path_partial c Hin) as [H|H]; [|contradiction].
    unfold restore_ok in H. rewrite Hl in H. simpl in H. apply orb_true_iff in H. destruct H; auto.
Qed.
Print Assumptions C14_restored_same_seed_same_run.

Theorem C14_restore_without_seed_refuted : class_ok evo_like = true /\ restore_ok evo_like false = false /\
  exists a1 a2, restored_seeds (fun z => z) evo_like false (Some 5%Z) 0 a1 <> restored_seeds (fun z => z) evo_like false (Some 5%Z) 0 a2.
Proof. exact restore_without_seed_refuted. Qed.
Print Assumptions C14_restore_without_seed_refuted.

(* why the other sources are not acceptable *)
Theorem C14_unseeded_sources_refuted : forall derive z dumped s, In s [SEntropy; SClock; SGlobal; SStale] ->
  exists a1 a2, site_seed derive s (Some z) dumped a1 <> site_seed derive s (Some z) dumped a2.
Proof. intros. eapply unseeded_sources_refuted; eauto. Qed.
Print Assumptions C14_unseeded_sources_refuted.
