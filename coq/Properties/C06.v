(* C06 — a failing algorithm is reported and never wedges the study.  Statements only. *)
From VZ Require Import Base.Prelude Model.Service Proofs.ServiceP Proofs.WedgeP Proofs.EsP Proofs.SuggestSpecP Proofs.AlwaysDoneP.
From VZ Require Model.HandlerIR Model.EarlyStopIR Gen.EarlyStopSrc Proofs.EarlyStopIRP.

(* the continuation taken when Pythia fails / under-delivers / its metadata cannot be stored is finish_op: whenever the
   operation record exists, the RPC ends with a DONE operation carrying the error flag, and exactly that is stored *)
Theorem C06_failure_is_reported_and_stored : forall s k n o err out po tr,
  get_node k (nodes s) = Some n -> existsb (op_is (o_client o) (o_num o)) (n_ops n) = true ->
  let o' := mkOp (o_client o) (o_num o) true err out in
  exists s' tr', run (finish_op k o err out) s po tr = (s', Done (RpOp o'), tr') /\
    (exists n', get_node k (nodes s') = Some n' /\ find (op_is (o_client o) (o_num o)) (n_ops n') = Some o' /\
                n_trials n' = n_trials n /\ n_study n' = n_study n).
Proof. exact finish_op_done. Qed.
Print Assumptions C06_failure_is_reported_and_stored.

(* the only way a worker is answered without reaching the algorithm is an operation stored with done = false *)
Theorem C06_wedge_needs_unfinished_operation : forall s k n c count po o rest,
  get_node k (nodes s) = Some n -> immutable (n_study n) = false ->
  filter (fun o => negb (o_done o)) (filter (fun o => N.eqb (o_client o) c) (n_ops n)) = o :: rest ->
  step s (SuggestTrials k c count, po) = (s, Done (RpOp o)).
Proof. exact unfinished_returned. Qed.
Print Assumptions C06_wedge_needs_unfinished_operation.

(* a concrete failing-algorithm history: the failure is reported, nothing is left unfinished, the next suggest by the
   same worker reaches the algorithm again and hands out a trial (evaluated by the kernel) *)
Theorem C06_failing_history_not_wedged :
  let ops := [(CreateStudy 1 1 false (mkS SS_ACTIVE [(1%N, true)] []), PFail EOther);
              (SuggestTrials (1, 1)%N 1 2, PFail ERuntime);
              (SuggestTrials (1, 1)%N 1 2, PDeliver [7%N] [] []);
              (SuggestTrials (1, 1)%N 1 2, PDeliver [8%N; 9%N; 10%N] [] [])] in
  match run_outcomes ops init_state with
  | [_; Done (RpOp o1); Done (RpOp o2); Done (RpOp o3)] =>
    o_done o1 && o_err o1 && o_done o2 && negb (o_err o2) && Nat.eqb (length (o_trials o2)) 1 &&
    o_done o3 && Nat.eqb (length (o_trials o3)) 2
  | _ => false
  end = true.
Proof. vm_compute. reflexivity. Qed.
Print Assumptions C06_failing_history_not_wedged.

(* The state invariant behind "never wedged": an RPC that ends normally leaves no suggestion operation unfinished, for
   every state with unique study / operation keys, every RPC and every Pythia answer (incl. failures, short and empty
   deliveries, metadata that cannot be stored).  Proved by showing that every normally ending path of SuggestTrials after
   the creation of its operation record runs finish_op, and that no other handler writes an operation. *)
Theorem C06_never_wedged : forall s ro s' r, wf s -> all_done s -> step s ro = (s', Done r) -> all_done s' /\ wf s'.
Proof. exact never_wedged. Qed.
Print Assumptions C06_never_wedged.

Theorem C06_never_wedged_history : forall ops,
  forallb is_done (run_outcomes ops init_state) = true -> all_done (run_all ops init_state).
Proof. intros ops H. destruct wf_init as [W A]. exact (proj1 (never_wedged_history ops init_state W A H)). Qed.
Print Assumptions C06_never_wedged_history.

(* ALONG EVERY HISTORY - whatever the outcomes of the calls, normal or erroneous, whatever the algorithm answers (failures,
   short / empty / over-delivery, metadata that cannot be stored) - no suggestion operation is left unfinished; and on
   every reachable state SuggestTrials on an existing active study NEVER fails: it ends with a finished operation of the
   asking worker (carrying the error flag when the algorithm failed).  So a later suggest by any worker always reaches the
   algorithm or the worker's own stock again.  (suggest_answer_ok only excludes the type confusion "an early-stopping
   answer to a suggest request".) *)
Theorem C06_no_unfinished_operation_on_any_history : forall ops,
  Forall suggest_answer_ok ops -> all_done (run_all ops init_state).
Proof. intros ops H. exact (inv_done _ (always_done ops H)). Qed.
Print Assumptions C06_no_unfinished_operation_on_any_history.

Theorem C06_suggest_never_fails_on_an_active_study : forall ops k n c count po,
  Forall suggest_answer_ok ops -> not_decide po ->
  let s := run_all ops init_state in
  get_node k (nodes s) = Some n -> immutable (n_study n) = false ->
  exists s' o, step s (SuggestTrials k c count, po) = (s', Done (RpOp o)) /\ o_done o = true /\ o_client o = c.
Proof. exact suggest_never_fails. Qed.
Print Assumptions C06_suggest_never_fails_on_an_active_study.

(* EARLY STOPPING.  "Active" = what the handler itself reads (the first stored record of the trial).  No RPC of any kind,
   with any arguments and any answer of the algorithm - decisions for this trial, for other trials, for none, a failure,
   metadata that cannot be stored - and HOWEVER IT ENDS (normally or with an error) leaves an ACTIVE early-stopping
   operation behind; hence along every history every state is quiet, and a later check is never answered from an
   abandoned operation.  (suggest_kind only excludes the type confusion "a suggestion answer to an early-stopping
   request".) *)
Theorem C06_early_stop_operation_never_left_active : forall s ro, wf s -> es_quiet s -> suggest_kind ro ->
  es_quiet (step_state s ro) /\ wf (step_state s ro).
Proof. exact es_quiet_step. Qed.
Print Assumptions C06_early_stop_operation_never_left_active.

Theorem C06_early_stop_quiet_along_every_history : forall ops, Forall suggest_kind ops -> es_quiet (run_all ops init_state).
Proof. intros ops H. exact (proj1 (es_quiet_history ops H)). Qed.
Print Assumptions C06_early_stop_quiet_along_every_history.

(* ... and in a quiet state a check on a live trial reaches the algorithm again: if the algorithm fails, that failure is
   what the caller gets, and the state is quiet afterwards *)
Theorem C06_early_stop_reaches_the_algorithm : forall s k n id t e,
  es_quiet s -> get_node k (nodes s) = Some n -> immutable (n_study n) = false ->
  get_trial id (n_trials n) = Some t -> trial_mutable t = true ->
  exists s', step s (CheckEarlyStop true k id, PFail e) = (s', Failed e) /\ es_quiet s'.
Proof. exact check_early_stop_reaches. Qed.
Print Assumptions C06_early_stop_reaches_the_algorithm.

(* PARTIAL: that the handler programs are the code is the trace-level correspondence's business; a crash (not an error)
   inside SuggestTrials does leave the record unfinished: known finding C05-crash-inside-suggest-leaves-operation. *)

(* CHECKTRIALEARLYSTOPPINGSTATE IS THE SOURCE: Gen/EarlyStopSrc.v is regenerated at every run from the method (block by block, see
   Model/EarlyStopIR.v); the program it denotes is the handler program the early-stopping theorems above are about. *)
Theorem C06_source_early_stop_is_the_model : forall recycle k id,
  HandlerIR.peq (EarlyStopIR.early_stop_of EarlyStopSrc.src_CheckTrialEarlyStoppingState recycle k id) (handler (CheckEarlyStop recycle k id)).
Proof. exact EarlyStopIRP.src_early_stop_is_h_check_early_stop. Qed.
Print Assumptions C06_source_early_stop_is_the_model.
