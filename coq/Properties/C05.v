(* C05 — the SQL-backed service survives a crash at any point without losing or tearing data.  Statements only.
   Gen/SqlShapes.v is regenerated from vizier/_src/service/sql_datastore.py on every run (harness/translate/sqlshape.py):
   per SQLDataStore method, the skeleton of reads / writes / commit / rollback / raise inside `with self._lock`. *)
From VZ Require Import Base.Prelude Model.SqlShape Gen.SqlShapes Proofs.SqlShapeP
                       Model.Service Model.ServiceEq Model.Crash Proofs.CrashP Proofs.WedgeP Proofs.FrameP Proofs.CrashFrameP.


(* every datastore method, as written today, passes the transaction-shape check *)
Theorem C05_all_methods_have_atomic_shape : forallb (fun p => shape_ok (snd p)) all_shapes = true.
Proof. vm_compute. reflexivity. Qed.
Print Assumptions C05_all_methods_have_atomic_shape.

Theorem C05_twenty_methods_covered : length all_shapes = 20.
Proof. reflexivity. Qed.
Print Assumptions C05_twenty_methods_covered.

(* the check is sound for the trace semantics of skeletons (branches, unbounded loops, caught IntegrityErrors):
   every execution ends either raised with nothing pending and nothing committed, or returned with nothing pending *)
Theorem C05_shape_check_sound : forall l, shape_ok l = true ->
  forall t s, execs l t s -> ok_end s (run_evs t Cl) = true.
Proof. exact shape_ok_sound. Qed.
Print Assumptions C05_shape_check_sound.

(* such an execution is crash-atomic: whichever prefix of its SQL activity happened before the process died, the durable
   content is that before the call (0 committed writes) or that of the completed call *)
Theorem C05_primitive_crash_atomic : forall l, shape_ok l = true -> forall t s, execs l t s ->
  forall n, durable (firstn n t) = 0 \/ durable (firstn n t) = durable t.
Proof.
  intros l Hl t s Hx n. apply crash_atomic. pose proof (shape_ok_sound l Hl t s Hx) as H.
  destruct s, (run_evs t Cl); simpl in H; try discriminate; auto.
Qed.
Print Assumptions C05_primitive_crash_atomic.

(* a call that raised changed nothing durable; a call that returned has nothing left uncommitted (acknowledged = durable) *)
Theorem C05_acknowledged_is_durable : forall l, shape_ok l = true -> forall t s, execs l t s ->
  match s with
  | Raises | DbError => dstate t = (0, 0)
  | Returns | Falls => snd (dstate t) = 0
  end.
Proof.
  intros l Hl t s Hx. pose proof (shape_ok_sound l Hl t s Hx) as H.
  destruct s; destruct (run_evs t Cl) eqn:E; simpl in H; try discriminate;
    try (apply clean_end_no_change; exact E); try (rewrite (clean_end_no_change t E); reflexivity);
    apply committed_end_nothing_pending; exact E.
Qed.
Print Assumptions C05_acknowledged_is_durable.

(* single-resource RPCs (create, complete, measure, stop, delete, set-state, update-metadata, delete-study with its
   trials and operations, create-study) change the datastore through at most ONE primitive, in every state:
   together with primitive atomicity they are all-or-nothing under a crash *)
Theorem C05_single_resource_rpc_one_mutation : forall s r po, single_resource r = true ->
  count_mut (snd (run (handler r) s po [])) <= 1.
Proof. exact single_mutation. Qed.
Print Assumptions C05_single_resource_rpc_one_mutation.

(* non-vacuity: update_metadata's skeleton has a loop with a rollback-and-raise inside and still checks *)
Example C05_update_metadata_shape : shape_ok sh_update_metadata = true /\ shape_ok sh_delete_study = true.
Proof. split; reflexivity. Qed.

(* a shape with a commit between two writes (two transactions) is rejected *)
Example C05_two_commits_rejected : shape_ok B[STryWrite; SCommit; STryWrite; SCommit] = false.
Proof. reflexivity. Qed.

(* CRASH ANYWHERE.  Along every history, a crash after ANY number m of datastore primitives of ANY next RPC (any kind, any
   arguments, any Pythia answer) leaves a durable state in which every trial that was stored before and is stored after
   has evolved by a legal transition (same id and parameters, state moved along the documented graph or stayed, completed
   trials untouched, owner kept), study keys / operation keys / trial ids are still unique.  Single-resource RPCs go through
   at most one successful mutation, so their durable state is the state before or after the call; SuggestTrials is followed
   prefix by prefix through its assignment loop. *)
Theorem C05_crash_anywhere_keeps_lifecycle : forall ops r po m, let s := run_all ops init_state in
  frame s (run_upto m (handler r) s po) /\ WedgeP.wf (run_upto m (handler r) s po) /\ wf_t (run_upto m (handler r) s po).
Proof. exact crash_frame_history. Qed.
Print Assumptions C05_crash_anywhere_keeps_lifecycle.

(* THE PROGRAMS ABOVE ARE THE SOURCE.  The handler programs `handler r` that the theorems of this file run (under the interleaving /
   crash semantics) are the programs regenerated from vizier_service.py at every run (see C01_source_handlers_are_the_model;
   equality through the standard library's functional extensionality). *)
From VZ Require Proofs.AllHandlersP.
Theorem C05_source_handlers_equal_the_model : forall r, AllHandlersP.handler_from_source_all r = Service.handler r.
Proof. exact AllHandlersP.all_source_handlers_equal_the_model. Qed.
Print Assumptions C05_source_handlers_equal_the_model.
