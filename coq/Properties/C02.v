(* C02 — suggest: exact count, sticky per worker, fresh ids.  Statements only. *)
From VZ Require Import Base.Prelude Model.Service Proofs.ServiceP Proofs.WedgeP Proofs.StickyP Proofs.ReachP Proofs.FrameP Proofs.SuggestSpecP Proofs.SortedP.
From VZ Require Model.HandlerIR Model.SuggestIR Gen.SuggestSrc Proofs.SuggestIRP.

(* every new trial is numbered max+1: creating it always succeeds, appends it, its id is larger than every id in the
   study and the maximum grows by exactly one (so ids increase with creation order) *)
Theorem C02_fresh_ids : forall s k n t,
  get_node k (nodes s) = Some n -> t_id t = (max_id (n_trials n) + 1)%N ->
  exec (CCreateTrial k t) s = (upd s k (mkN (n_study n) (n_trials n ++ [t]) (n_ops n) (n_es n)), Ok RUnit) /\
  max_id (n_trials n ++ [t]) = (max_id (n_trials n) + 1)%N /\
  (forall t0, In t0 (n_trials n) -> (t_id t0 < t_id t)%N).
Proof. exact create_fresh. Qed.
Print Assumptions C02_fresh_ids.

Theorem C02_max_id_bounds_all : forall l t, In t l -> (t_id t <= max_id l)%N.
Proof. exact max_id_bound. Qed.
Print Assumptions C02_max_id_bounds_all.

(* an unfinished operation of the same worker is returned as it is: nothing is created, no algorithm call *)
Theorem C02_unfinished_operation_returned : forall s k n c count po o rest,
  get_node k (nodes s) = Some n -> immutable (n_study n) = false ->
  filter (fun o => negb (o_done o)) (filter (fun o => N.eqb (o_client o) c) (n_ops n)) = o :: rest ->
  step s (SuggestTrials k c count, po) = (s, Done (RpOp o)).
Proof. exact unfinished_returned. Qed.
Print Assumptions C02_unfinished_operation_returned.

(* STICKY: a worker that already holds at least `count` ACTIVE trials and has no unfinished operation gets exactly its first
   `count` ACTIVE trials again, in a finished operation without error; trials and study are untouched (only the operation
   record is added).  The operations of the worker are numbered 1..m, as SuggestTrials itself numbers them. *)
Theorem C02_sticky : forall s k n c count po,
  get_node k (nodes s) = Some n -> immutable (n_study n) = false ->
  (forall o, In o (filter (fun o => N.eqb (o_client o) c) (n_ops n)) -> o_done o = true) ->
  numbered_from' 1 (filter (fun o => N.eqb (o_client o) c) (n_ops n)) ->
  count <= length (filter (fun t => tstate_eqb (t_state t) ACTIVE && N.eqb (t_client t) c) (n_trials n)) ->
  exists o s', step s (SuggestTrials k c count, po) = (s', Done (RpOp o)) /\
    o_done o = true /\ o_err o = false /\
    o_trials o = firstn count (filter (fun t => tstate_eqb (t_state t) ACTIVE && N.eqb (t_client t) c) (n_trials n)) /\
    (exists n', get_node k (nodes s') = Some n' /\ n_trials n' = n_trials n /\ n_study n' = n_study n).
Proof. exact sticky. Qed.
Print Assumptions C02_sticky.

(* on states reachable from the initial state the numbering hypothesis always holds (Proofs/NumberedP.v) *)
Theorem C02_sticky_on_reachable_states : forall ops k n c count po,
  let s := run_all ops init_state in
  get_node k (nodes s) = Some n -> immutable (n_study n) = false ->
  (forall o, In o (filter (fun o => N.eqb (o_client o) c) (n_ops n)) -> o_done o = true) ->
  count <= length (filter (fun t => tstate_eqb (t_state t) ACTIVE && N.eqb (t_client t) c) (n_trials n)) ->
  exists o s', step s (SuggestTrials k c count, po) = (s', Done (RpOp o)) /\
    o_done o = true /\ o_err o = false /\
    o_trials o = firstn count (filter (fun t => tstate_eqb (t_state t) ACTIVE && N.eqb (t_client t) c) (n_trials n)) /\
    (exists n', get_node k (nodes s') = Some n' /\ n_trials n' = n_trials n /\ n_study n' = n_study n).
Proof. exact sticky_reachable. Qed.
Print Assumptions C02_sticky_on_reachable_states.

(* THE FUNCTIONAL THEOREM.  On a state where the study is active, the asking worker has no unfinished operation, its
   operations are numbered 1..m and trial ids are unique, SuggestTrials (any count, any Pythia answer of the suggest kind)
   ends normally with a finished operation of that worker such that:
   - every returned trial is ACTIVE and owned by the asking worker;
   - unless the operation carries the error flag, it returns exactly min(count, own ACTIVE + queued REQUESTED + delivered)
     trials, and they are the first `count` of: the worker's own ACTIVE trials (stored order), then the queued REQUESTED
     trials (last queued first) re-assigned to the worker, then new trials numbered max+1, max+2, ... (last suggestion first);
   - every trial stored before is still stored, unchanged up to metadata, unless it was REQUESTED and has been assigned to
     the asking worker (and is then among the returned trials): no ACTIVE trial ever changes owner. *)
Theorem C02_suggest_functional : forall s k n c count po, suggest_ready s k n c -> not_decide po ->
  exists s' o n', step s (SuggestTrials k c count, po) = (s', Done (RpOp o)) /\ get_node k (nodes s') = Some n' /\
    o_done o = true /\ o_client o = c /\
    Forall (fun t => t_state t = ACTIVE /\ t_client t = c) (o_trials o) /\
    (o_err o = false ->
       length (o_trials o) = Nat.min count (length (mine_of c (n_trials n)) + length (pool_of (n_trials n)) + length (sugs_of po)) /\
       o_trials o = firstn count (mine_of c (n_trials n) ++ map (activate c) (rev (pool_of (n_trials n))) ++
                                  mk_new ACTIVE c (max_id (n_trials n)) (rev (sugs_of po)))) /\
    (forall t, In t (n_trials n) -> exists t', get_trial (t_id t) (n_trials n') = Some t' /\
       (same_core t t' \/ (t_state t = REQUESTED /\ same_core (activate c t) t' /\ (o_err o = false -> In (activate c t) (o_trials o))))).
Proof. exact suggest_clauses. Qed.
Print Assumptions C02_suggest_functional.

(* SURPLUS IS QUEUED, IDS ARE FRESH AND INCREASING.  When own + queued trials do not cover the request and the algorithm's
   answer is accepted, the stored trials afterwards are the old ones (same ids, same order) followed by exactly one new trial
   per suggestion - none is dropped: those not handed out are stored REQUESTED and unowned -, and the new ids are
   max+1, max+2, ..., max+|suggestions| in creation order (hence larger than every earlier id: C02_new_ids_above). *)
Theorem C02_surplus_queued_and_ids_fresh : forall s k n c count sugs smd tmd, suggest_ready s k n c ->
  length (mine_of c (n_trials n)) + length (pool_of (n_trials n)) < count ->
  exists s' o n', step s (SuggestTrials k c count, PDeliver sugs smd tmd) = (s', Done (RpOp o)) /\ get_node k (nodes s') = Some n' /\
    (o_err o = false ->
      exists base news rems,
        n_trials n' = (base ++ news) ++ rems /\ map t_id base = map t_id (n_trials n) /\
        o_trials o = (mine_of c (n_trials n) ++ map (activate c) (rev (pool_of (n_trials n)))) ++ news /\
        Forall (fun t => t_state t = REQUESTED /\ t_client t = 0%N) rems /\
        map t_params news ++ rev (map t_params rems) = rev sugs /\
        map t_id (news ++ rems) = ids_from (max_id (n_trials n)) (length sugs)).
Proof. exact suggest_surplus. Qed.
Print Assumptions C02_surplus_queued_and_ids_fresh.

Theorem C02_new_ids_above : forall ts n id old, In id (ids_from (max_id ts) n) -> In old ts -> (t_id old < id)%N.
Proof. exact fresh_ids_above. Qed.
Print Assumptions C02_new_ids_above.

Theorem C02_new_ids_increase : forall n m, Sorted.StronglySorted N.lt (ids_from m n).
Proof. exact ids_from_sorted. Qed.
Print Assumptions C02_new_ids_increase.

(* the hypotheses other than "study active" and "no unfinished operation of this worker" hold on every reachable state *)
Theorem C02_ready_on_reachable_states : forall ops k n c, let s := run_all ops init_state in
  get_node k (nodes s) = Some n -> immutable (n_study n) = false ->
  (forall o, In o (filter (fun o => N.eqb (o_client o) c) (n_ops n)) -> o_done o = true) ->
  suggest_ready s k n c.
Proof. exact reachable_ready. Qed.
Print Assumptions C02_ready_on_reachable_states.

(* NO TRIAL IS EVER ASSIGNED TO TWO WORKERS.  Along every history from the initial state and for every RPC whatsoever (any
   kind, any arguments, any Pythia answer, success or failure): a stored trial that is not REQUESTED keeps its owner and
   never becomes REQUESTED again.  Ownership is therefore given exactly once, when a queued trial leaves REQUESTED (or
   when the trial is created), and never moves.  (The ownership clause is part of the transition relation of the C01
   frame theorem, Proofs/FrameP.v.) *)
Theorem C02_owner_never_changes : forall ops ro k n n' id t t',
  get_node k (nodes (run_all ops init_state)) = Some n ->
  get_node k (nodes (step_state (run_all ops init_state) ro)) = Some n' ->
  get_trial id (n_trials n) = Some t -> get_trial id (n_trials n') = Some t' ->
  t_state t <> REQUESTED -> t_client t' = t_client t /\ t_state t' <> REQUESTED.
Proof.
  intros ops ro k n n' id t t' Hn Hn' Ht Ht' Hr.
  destruct (frame_history ops ro k n n' id t t' Hn Hn' Ht Ht') as [_ [_ [Hl [_ Hown]]]].
  split; [exact (Hown Hr)|exact (legal_not_requested _ _ Hl Hr)].
Qed.
Print Assumptions C02_owner_never_changes.

(* IDS INCREASE WITH CREATION ORDER, ON EVERY HISTORY.  In every state reachable from the initial state the trials of a
   study are stored in strictly increasing id order: every creation (CreateTrial, the handed-out and the queued suggestions
   of SuggestTrials) reads the largest id under the study lock and appends id + 1, rewrites keep a trial's position,
   deletions keep the order.  Hence listing order = id order = creation order (the "first N own ACTIVE trials" of the
   sticky clause are the oldest ones). *)
Theorem C02_ids_increase_with_creation_order : forall ops k n,
  get_node k (nodes (run_all ops init_state)) = Some n -> Sorted.StronglySorted N.lt (map t_id (n_trials n)).
Proof. intros ops k n H. exact (reachable_sorted ops k n H). Qed.
Print Assumptions C02_ids_increase_with_creation_order.

(* worked instance (kernel-evaluated): two workers, over-delivery, queued trials handed to the second worker *)
Theorem C02_worked_instance :
  let ops := [(CreateStudy 1 1 false (mkS SS_ACTIVE [(1%N, true)] []), PFail EOther);
              (SuggestTrials (1, 1)%N 1 1, PDeliver [10%N; 11%N; 12%N] [] []);
              (SuggestTrials (1, 1)%N 2 3, PDeliver [20%N; 21%N] [] [])] in
  let s := run_all ops init_state in
  match get_node (1, 1)%N (nodes s) with
  | Some n => map (fun t => (t_id t, t_state t, t_client t, t_params t)) (n_trials n)
  | None => []
  end = [(1, ACTIVE, 1, 12); (2, ACTIVE, 2, 10); (3, ACTIVE, 2, 11); (4, ACTIVE, 2, 21); (5, REQUESTED, 0, 20)]%N.
Proof. exact suggest_worked_instance. Qed.
Print Assumptions C02_worked_instance.

(* PARTIAL: that the handler program is the code (incl. the order in which the datastores list trials) is decided by the
   trace-level correspondence + monitor over generated histories; client-side polling (vizier_client.get_suggestions) by the
   monitor only. *)

(* SUGGESTTRIALS IS THE SOURCE.  Gen/SuggestSrc.v is regenerated at every run from VizierServicer.SuggestTrials (block by block,
   see Model/SuggestIR.v and C01_source_handlers_are_the_model); the program it denotes is the handler program the theorems above
   are about. *)
Theorem C02_source_suggest_is_the_model : forall k c n,
  HandlerIR.peq (SuggestIR.suggest_of SuggestSrc.src_SuggestTrials k c n) (handler (SuggestTrials k c n)).
Proof. exact SuggestIRP.src_suggest_is_h_suggest. Qed.
Print Assumptions C02_source_suggest_is_the_model.
