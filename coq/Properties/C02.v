(* C02 — suggest: exact count, sticky per worker, fresh ids.  Statements only. *)
From VZ Require Import Base.Prelude Model.Service Proofs.ServiceP Proofs.WedgeP Proofs.StickyP Proofs.ReachP.

(* every new trial is numbered max+1: creating it always succeeds, appends it, its id is larger than every id in the
   study and the maximum grows by exactly one (so ids increase with creation order) *)
Theorem C02_fresh_ids : forall s k n t,
  get_node k (nodes s) = Some n -> t_id t = (max_id (n_trials n) + 1)%N ->
  exec (CCreateTrial k t) s = (upd s k (mkN (n_study n) (n_trials n ++ [t]) (n_ops n) (n_es n)), Ok RUnit) /\
  max_id (n_trials n ++ [t]) = (max_id (n_trials n) + 1)%N /\
  (forall t0, In t0 (n_trials n) -> (t_id t0 < t_id t)%N).
Proof. exact create_fresh. Qed.
Print Assumptions C02_fresh_ids.

Theorem C02_max_id_bounds_all : forall l t, In t l -> (t_id t <= max_id l)%N.
Proof. exact max_id_bound. Qed.
Print Assumptions C02_max_id_bounds_all.

(* an unfinished operation of the same worker is returned as it is: nothing is created, no algorithm call *)
Theorem C02_unfinished_operation_returned : forall s k n c count po o rest,
  get_node k (nodes s) = Some n -> immutable (n_study n) = false ->
  filter (fun o => negb (o_done o)) (filter (fun o => N.eqb (o_client o) c) (n_ops n)) = o :: rest ->
  step s (SuggestTrials k c count, po) = (s, Done (RpOp o)).
Proof. exact unfinished_returned. Qed.
Print Assumptions C02_unfinished_operation_returned.

(* STICKY: a worker that already holds at least `count` ACTIVE trials and has no unfinished operation gets exactly its first
   `count` ACTIVE trials again, in a finished operation without error; trials and study are untouched (only the operation
   record is added).  The operations of the worker are numbered 1..m, as SuggestTrials itself numbers them. *)
Theorem C02_sticky : forall s k n c count po,
  get_node k (nodes s) = Some n -> immutable (n_study n) = false ->
  (forall o, In o (filter (fun o => N.eqb (o_client o) c) (n_ops n)) -> o_done o = true) ->
  numbered_from' 1 (filter (fun o => N.eqb (o_client o) c) (n_ops n)) ->
  count <= length (filter (fun t => tstate_eqb (t_state t) ACTIVE && N.eqb (t_client t) c) (n_trials n)) ->
  exists o s', step s (SuggestTrials k c count, po) = (s', Done (RpOp o)) /\
    o_done o = true /\ o_err o = false /\
    o_trials o = firstn count (filter (fun t => tstate_eqb (t_state t) ACTIVE && N.eqb (t_client t) c) (n_trials n)) /\
    (exists n', get_node k (nodes s') = Some n' /\ n_trials n' = n_trials n /\ n_study n' = n_study n).
Proof. exact sticky. Qed.
Print Assumptions C02_sticky.

(* on states reachable from the initial state the numbering hypothesis always holds (Proofs/NumberedP.v) *)
Theorem C02_sticky_on_reachable_states : forall ops k n c count po,
  let s := run_all ops init_state in
  get_node k (nodes s) = Some n -> immutable (n_study n) = false ->
  (forall o, In o (filter (fun o => N.eqb (o_client o) c) (n_ops n)) -> o_done o = true) ->
  count <= length (filter (fun t => tstate_eqb (t_state t) ACTIVE && N.eqb (t_client t) c) (n_trials n)) ->
  exists o s', step s (SuggestTrials k c count, po) = (s', Done (RpOp o)) /\
    o_done o = true /\ o_err o = false /\
    o_trials o = firstn count (filter (fun t => tstate_eqb (t_state t) ACTIVE && N.eqb (t_client t) c) (n_trials n)) /\
    (exists n', get_node k (nodes s') = Some n' /\ n_trials n' = n_trials n /\ n_study n' = n_study n).
Proof. exact sticky_reachable. Qed.
Print Assumptions C02_sticky_on_reachable_states.

(* PARTIAL: the three-source order (own ACTIVE, queued REQUESTED, new) and the queueing of surplus suggestions are decided by
   correspondence + monitor: the loops of SuggestTrials are modelled and executed, their effect is not yet stated as a theorem. *)
