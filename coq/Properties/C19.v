(* C19 — the acquisition optimiser returns in-bounds candidates, the best it evaluated. *)
From VZ Require Import Base.Prelude Model.TopK Gen.OptLoop Proofs.TopKP.

(* what the source says today (Gen/OptLoop.v, regenerated on every run) *)
Theorem C19_source_as_modelled :
  scored_updated_and_kept_features_are_masked = true /\ nan_rewards_become_minus_inf = true /\
  best_results_start_as_zero_rows_with_minus_inf = true /\ update_best_is_topk_of_batch_and_kept = true /\
  eagle_projection_clips_to_unit_cube = true.
Proof. repeat split; reflexivity. Qed.
Print Assumptions C19_source_as_modelled.

(* for any score function, any strategy output and any number of steps: exactly `count` candidates come back, each one
   carries the score of exactly the features that are returned (or is an untouched all-zero filler with the lowest reward),
   and the padded columns of every returned row are zero *)
Theorem C19_count_scores_and_padding : forall k width n_real lowest score raw,
  length (optimise k width n_real lowest score raw) = k /\
  (forall y, In y (optimise k width n_real lowest score raw) ->
     (snd y = score (fst y) \/ y = (repeat 0%Z width, lowest)) /\ padded_zero n_real (fst y)).
Proof.
  intros. split; [apply optimise_count|]. intros y H. split; [eapply optimise_reward_is_score; eauto|eapply optimise_padding_never_leaks; eauto].
Qed.
Print Assumptions C19_count_scores_and_padding.

(* the kept rewards are the `count` best of everything scored so far, whatever the batch sizes and the number of steps *)
Theorem C19_best_of_everything_evaluated : forall k init batches,
  run_k k (firstn k (sort_k init)) batches = firstn k (sort_k (concat (rev batches) ++ init)).
Proof. exact run_k_is_global_topk. Qed.
Print Assumptions C19_best_of_everything_evaluated.

Theorem C19_items_follow_keys : forall k batches init,
  map snd (run_i k init batches) = run_k k (map snd init) (map (map snd) batches).
Proof. exact run_i_keys. Qed.
Print Assumptions C19_items_follow_keys.

Theorem C19_best_reward_is_the_maximum : forall k init batches y, (1 <= k)%nat ->
  In y (concat (rev batches) ++ init) -> (y <= hd y (run_k k (firstn k (sort_k init)) batches))%Z.
Proof. exact best_reward_is_max. Qed.
Print Assumptions C19_best_reward_is_the_maximum.

(* every returned candidate was proposed by the strategy (masked) or is a filler: nothing is invented *)
Theorem C19_candidates_were_evaluated : forall k batches init y,
  In y (run_i k init batches) -> In y init \/ exists b, In b batches /\ In y b.
Proof. exact run_i_In. Qed.
Print Assumptions C19_candidates_were_evaluated.

(* "never worse than the best prior point" does NOT follow: prior points are scored for the strategy only and are not
   candidates (known finding C19-prior-points-are-not-candidates).  Witness in the model: one prior with key 9, one step
   whose batch scores 1. *)
Theorem C19_prior_not_in_results_refuted :
  prior_features_are_candidates = false /\
  exists prior_key batch, (hd 0 (run_k 1 (firstn 1 (sort_k [(-1)%Z])) [batch]) < prior_key)%Z /\ (0 < prior_key)%Z.
Proof. split; [reflexivity|]. exists 9%Z, [1%Z]. split; vm_compute; reflexivity. Qed.
Print Assumptions C19_prior_not_in_results_refuted.

Example C19_nonvacuous :
  run_k 2 (firstn 2 (sort_k [(-1); (-1)]%Z)) [[3; 1]; [2; 5]; [4]]%Z = [5; 4]%Z /\
  mask_row 2 [7; 8; 9; 6]%Z = [7; 8; 0; 0]%Z.
Proof. split; reflexivity. Qed.
