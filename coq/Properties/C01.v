From VZ Require Import Base.Prelude Model.Service.
Theorem C01_placeholder : True. Proof. exact I. Qed.
Print Assumptions C01_placeholder.
