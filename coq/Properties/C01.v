(* C01 — trial lifecycle: legal transitions only, completed trials immutable, illegal calls fail and change nothing.
   Statements only; `step s (rpc, oracle)` is one RPC on the model of the service (Model/Service.v). *)
From VZ Require Import Base.Prelude Model.Service Proofs.ServiceP Proofs.WedgeP Proofs.FrameP.
From VZ Require Model.HandlerIR Gen.Handlers Proofs.HandlerIRP Proofs.AllHandlersP.

(* ---- illegal calls: documented error class, stored data unchanged (every state, every argument) *)
Theorem C01_missing_study_fails_unchanged : forall s r po k,
  rpc_key r = Some k -> get_node k (nodes s) = None -> step s (r, po) = (s, Failed ENotFound).
Proof. exact missing_study. Qed.
Print Assumptions C01_missing_study_fails_unchanged.

Theorem C01_inactive_study_fails_unchanged : forall s r po k n,
  rpc_key r = Some k -> mutating r = true -> get_node k (nodes s) = Some n -> immutable (n_study n) = true ->
  step s (r, po) = (s, Failed EImmutableStudy).
Proof. exact immutable_study. Qed.
Print Assumptions C01_inactive_study_fails_unchanged.

Theorem C01_missing_trial_fails_unchanged : forall s r po k n id,
  rpc_key r = Some k -> rpc_trial r = Some id -> get_node k (nodes s) = Some n -> immutable (n_study n) = false ->
  get_trial id (n_trials n) = None -> step s (r, po) = (s, Failed ENotFound).
Proof. exact missing_trial. Qed.
Print Assumptions C01_missing_trial_fails_unchanged.

Theorem C01_complete_non_active_fails_unchanged : forall s k n id t final inf po,
  get_node k (nodes s) = Some n -> immutable (n_study n) = false -> get_trial id (n_trials n) = Some t ->
  trial_mutable t = false -> step s (CompleteTrial k id final inf, po) = (s, Failed EImmutableTrial).
Proof. exact complete_immutable_trial. Qed.
Print Assumptions C01_complete_non_active_fails_unchanged.

Theorem C01_earlystop_non_active_fails_unchanged : forall s k n id t rc po,
  get_node k (nodes s) = Some n -> immutable (n_study n) = false -> get_trial id (n_trials n) = Some t ->
  trial_mutable t = false -> step s (CheckEarlyStop rc k id, po) = (s, Failed EImmutableTrial).
Proof. exact earlystop_immutable_trial. Qed.
Print Assumptions C01_earlystop_non_active_fails_unchanged.

(* measuring a non-active trial: ImmutableTrial; an INFEASIBLE trial is answered unchanged (code-documented no-op) *)
Theorem C01_measure_non_active_unchanged : forall s k n id t m po,
  get_node k (nodes s) = Some n -> immutable (n_study n) = false -> get_trial id (n_trials n) = Some t ->
  trial_mutable t = false ->
  step s (AddTrialMeasurement k id m, po) =
    (s, if tstate_eqb (t_state t) INFEASIBLE then Done (RpTrial t) else Failed EImmutableTrial).
Proof. exact measure_immutable_trial. Qed.
Print Assumptions C01_measure_non_active_unchanged.

(* stopping a non-active trial: no-op on STOPPING / SUCCEEDED (client_abc), ImmutableTrial otherwise; nothing changes *)
Theorem C01_stop_non_active_unchanged : forall s k n id t po,
  get_node k (nodes s) = Some n -> immutable (n_study n) = false -> get_trial id (n_trials n) = Some t ->
  t_state t <> ACTIVE ->
  step s (StopTrial k id, po) =
    (s, match t_state t with STOPPING | SUCCEEDED => Done (RpTrial t) | _ => Failed EImmutableTrial end).
Proof. exact stop_non_active_trial. Qed.
Print Assumptions C01_stop_non_active_unchanged.

(* ---- legal trial-level calls: exactly one stored trial is rewritten, by a legal transition (trans_ok: same id and
        parameters, state moves forward in REQUESTED -> ACTIVE -> STOPPING -> SUCCEEDED|INFEASIBLE, completed trials
        keep state / measurements / final measurement) *)
Theorem C01_complete_effect : forall s k n id t final inf po,
  get_node k (nodes s) = Some n -> immutable (n_study n) = false -> get_trial id (n_trials n) = Some t ->
  trial_mutable t = true -> (final <> [] \/ inf = true \/ t_meas t <> []) ->
  exists t', step s (CompleteTrial k id final inf, po) = (put_trial s k n t', Done (RpTrial t')) /\
             trans_ok t t' /\ t_meas t' = t_meas t /\ t_md t' = t_md t /\ t_client t' = t_client t /\
             t_state t' = (if inf then INFEASIBLE else SUCCEEDED).
Proof. exact complete_effect. Qed.
Print Assumptions C01_complete_effect.

Theorem C01_measure_effect : forall s k n id t m po,
  get_node k (nodes s) = Some n -> immutable (n_study n) = false -> get_trial id (n_trials n) = Some t ->
  trial_mutable t = true ->
  let t' := mkT (t_id t) (t_state t) (t_client t) (t_params t) (t_meas t ++ [m]) (t_final t) (t_md t) in
  step s (AddTrialMeasurement k id m, po) = (put_trial s k n t', Done (RpTrial t')) /\ trans_ok t t'.
Proof. exact measure_effect. Qed.
Print Assumptions C01_measure_effect.

Theorem C01_stop_effect : forall s k n id t po,
  get_node k (nodes s) = Some n -> immutable (n_study n) = false -> get_trial id (n_trials n) = Some t ->
  t_state t = ACTIVE ->
  step s (StopTrial k id, po) = (put_trial s k n (set_state t STOPPING), Done (RpTrial (set_state t STOPPING))) /\
  trans_ok t (set_state t STOPPING).
Proof. exact stop_effect. Qed.
Print Assumptions C01_stop_effect.

(* put_trial is a frame: the addressed trial reads the new value, every other trial, study, operation reads as before *)
Theorem C01_rewrite_is_local : forall s k n t' t0,
  get_node k (nodes s) = Some n -> get_trial (t_id t') (n_trials n) = Some t0 ->
  (exists n', get_node k (nodes (put_trial s k n t')) = Some n' /\ n_study n' = n_study n /\ n_ops n' = n_ops n /\
              n_es n' = n_es n /\ get_trial (t_id t') (n_trials n') = Some t' /\
              forall id, id <> t_id t' -> get_trial id (n_trials n') = get_trial id (n_trials n)) /\
  (forall k2, skey_eqb k k2 = false -> get_node k2 (nodes (put_trial s k n t')) = get_node k2 (nodes s)) /\
  owners (put_trial s k n t') = owners s.
Proof. exact put_trial_frame. Qed.
Print Assumptions C01_rewrite_is_local.

(* non-vacuity: a reachable state with an ACTIVE trial meets the hypotheses of the effect theorems *)
Example C01_nonvacuous :
  let s := run_all [(CreateStudy 1 1 false (mkS SS_ACTIVE [(1%N, true)] []), PFail EOther);
                    (SuggestTrials (1, 1)%N 1 1, PDeliver [42%N] [] [])] init_state in
  exists n t, get_node (1, 1)%N (nodes s) = Some n /\ immutable (n_study n) = false /\
              get_trial 1 (n_trials n) = Some t /\ trial_mutable t = true.
Proof. vm_compute. eexists. eexists. repeat split; reflexivity. Qed.

(* THE FRAME THEOREM: across ANY RPC (all 17 kinds, any arguments, any Pythia answer, success or failure), every trial that is
   stored before and after the call has evolved by a legal transition: same id and parameters, state moved along
   REQUESTED -> ACTIVE -> STOPPING -> SUCCEEDED | INFEASIBLE or stayed, and a completed trial kept its state, measurements and
   final measurement; a trial that is not REQUESTED keeps its owner (client).  For every state with unique study keys and
   unique trial ids ... *)
Theorem C01_frame : forall s ro k n n' id t t', wf s -> wf_t s ->
  get_node k (nodes s) = Some n -> get_node k (nodes (step_state s ro)) = Some n' ->
  get_trial id (n_trials n) = Some t -> get_trial id (n_trials n') = Some t' -> trans_ok t t'.
Proof. intros s ro k n n' id t t' W Wt. exact (frame_step s ro W Wt k n n' id t t'). Qed.
Print Assumptions C01_frame.

(* ... and those two invariants hold in every reachable state, so along every history every step is legal *)
Theorem C01_frame_along_every_history : forall ops ro k n n' id t t',
  get_node k (nodes (run_all ops init_state)) = Some n ->
  get_node k (nodes (step_state (run_all ops init_state) ro)) = Some n' ->
  get_trial id (n_trials n) = Some t -> get_trial id (n_trials n') = Some t' -> trans_ok t t'.
Proof. intros ops ro. exact (frame_history ops ro). Qed.
Print Assumptions C01_frame_along_every_history.

(* THE HANDLERS ARE THE SOURCE.  Gen/Handlers.v, Gen/SuggestSrc.v, Gen/EarlyStopSrc.v and Gen/OptimalSrc.v are regenerated at every
   run from vizier_service.py.
   - The bodies of CreateStudy, GetStudy, ListStudies, DeleteStudy, SetStudyState, GetOperation, CreateTrial, GetTrial, ListTrials,
     AddTrialMeasurement, CompleteTrial, DeleteTrial, StopTrial and UpdateMetadata, STATEMENT BY STATEMENT, in the statement
     language of Model/HandlerIR.v.
   - SuggestTrials, CheckTrialEarlyStoppingState and ListOptimalTrials BLOCK BY BLOCK (Model/SuggestIR.v, EarlyStopIR.v,
     OptimalIR.v): the translator checks that the method consists, in order, of exactly the statements the model was written from
     and writes down the sequence and lock nesting of the blocks (for SuggestTrials 21: guard, the operation lock, find / create the
     operation, own ACTIVE trials, the REQUESTED pool under the study lock, the Pythia call and its failure path, the metadata
     write-back and its failure path, creation of new and surplus trials under the study lock, finishing the operation).
   The program such a body denotes is, node for node - datastore calls with their arguments, lock operations, the Pythia call,
   replies, error classes - the handler program every theorem of C01 C02 C04 C05 C06 C07 speaks about, for ALL 17 RPC kinds
   (C01_source_every_kind); so running any history with the regenerated handlers is running the model. *)
Theorem C01_source_handlers_are_the_model : forall r,
  HandlerIR.peq (AllHandlersP.handler_from_source_all r) (handler r).
Proof. exact AllHandlersP.all_source_handlers_are_the_model. Qed.
Print Assumptions C01_source_handlers_are_the_model.

Theorem C01_source_handlers_run_like_the_model : forall ops s,
  fold_left (fun s ro => fst (AllHandlersP.step_src_all s ro)) ops s = run_all ops s.
Proof. exact AllHandlersP.all_source_history. Qed.
Print Assumptions C01_source_handlers_run_like_the_model.

(* the same as an equality of programs, through the standard library's functional extensionality (the only theorem of this file
   that is not closed under the global context): whatever is proved of `handler r` anywhere - under the interleaving semantics
   of C04, the crash semantics of C05 - is proved of the regenerated program *)
Theorem C01_source_handlers_equal_the_model : forall r, AllHandlersP.handler_from_source_all r = handler r.
Proof. exact AllHandlersP.all_source_handlers_equal_the_model. Qed.
Print Assumptions C01_source_handlers_equal_the_model.

(* the study guard and the set of trial states in which a trial may be edited, as the source spells them *)
Theorem C01_source_guards : (forall st, immutable st = negb (existsb (sstate_eqb (s_state st)) Handlers.study_mutable_states)) /\
  (forall t, trial_mutable t = HandlerIR.state_in (t_state t) Handlers.trial_mutable_states).
Proof. split; [exact HandlerIRP.src_study_guard | exact HandlerIRP.src_trial_mutable]. Qed.
Print Assumptions C01_source_guards.

(* no kind falls back on the hand-written program *)
Theorem C01_source_every_kind : forall r, AllHandlersP.from_source r = true.
Proof. exact AllHandlersP.every_kind_is_from_source. Qed.

(* PARTIAL: trials that are deleted and later re-created under a reused id are different trials (the service allocates
   max+1, see known finding C12-max-trial-id-decreases); the theorem speaks about one step at a time.  That the datastore primitives are the code (and that the blocks of the three block-level handlers mean what Model/*IR.v says)
   is the correspondence's business. *)
