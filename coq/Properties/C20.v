(* C20 — benchmark experimenters evaluate faithfully and leave suggestions intact. *)
From VZ Require Import Base.Prelude Model.Exptr Gen.Exptrs Proofs.ExptrP.

(* what the source says today (Gen/Exptrs.v, regenerated on every run): the sign-flip goal table swaps the two goals, the
   objective values are multiplied by -1, every problem_statement() is by value, the wrappers that move the point put the
   suggested parameters back, shifting subtracts the shift *)
Theorem C20_source_as_modelled :
  flip_goal_table = swap_table /\ flip_negates_objectives = true /\ statements_by_value = true /\
  wrappers_restore_parameters = true /\ shifting_subtracts_shift = true.
Proof. repeat split; reflexivity. Qed.
Print Assumptions C20_source_as_modelled.

(* sign flipping, with the goal table found in the source: an involution on values and goals, for every base experimenter
   and every point; one flip negates every objective and changes every goal *)
Theorem C20_flip_is_an_involution : forall b e x,
  ex_eval (flip flip_goal_table b (flip flip_goal_table b e)) x = ex_eval e x /\
  ex_goals (flip flip_goal_table b (flip flip_goal_table b e)) = ex_goals e.
Proof. exact flip_involution. Qed.
Print Assumptions C20_flip_is_an_involution.

Theorem C20_flip_negates_and_swaps : forall e,
  (forall x m n v, ex_eval e x = Some m -> In (n, v) m -> is_objective e n = true ->
     exists m', ex_eval (flip flip_goal_table true e) x = Some m' /\ In (n, Qopp v) m') /\
  (forall n g, In (n, g) (ex_goals e) -> exists g', In (n, g') (ex_goals (flip flip_goal_table true e)) /\ g' <> g).
Proof. intros e. split; [intros; eapply flip_negates; eauto|intros; eapply flip_goals; eauto]. Qed.
Print Assumptions C20_flip_negates_and_swaps.

(* shifting / permuting evaluate the base objective at the mapped point, and commute with sign flipping in any stacking *)
Theorem C20_point_wrappers : forall e x,
  (forall s, ex_eval (shift s e) x = ex_eval e (psub x s)) /\
  (forall ps, ex_eval (permute ps e) x = ex_eval e (pmap ps x)) /\
  (forall t b s, ex_eval (flip t b (shift s e)) x = ex_eval (shift s (flip t b e)) x) /\
  (forall t b ps, ex_eval (flip t b (permute ps e)) x = ex_eval (permute ps (flip t b e)) x).
Proof. intros. repeat split; reflexivity. Qed.
Print Assumptions C20_point_wrappers.

(* a permutation dictionary with duplicate-free keys and values drawn from the keys maps feasible values to feasible values *)
Theorem C20_permutation_stays_feasible : forall p v, perm_is_bijection p = true -> qmemb v (perm_keys p) = true ->
  qmemb (apply_perm p v) (perm_keys p) = true.
Proof. exact perm_maps_into_keys. Qed.
Print Assumptions C20_permutation_stays_feasible.

(* normalising preserves the order of objective values *)
Theorem C20_normalising_keeps_order : forall mean std a b, (0 < std)%Q ->
  ((a < b)%Q <-> (normalize_value mean std a < normalize_value mean std b)%Q).
Proof. exact normalize_keeps_order. Qed.
Print Assumptions C20_normalising_keeps_order.

(* the seeded change the sign-flip table must not make: with MAXIMIZE left in place the flip is no involution *)
Theorem C20_broken_table_refuted : exists e : exptr,
  ex_goals (flip [(GMax, GMax); (GMin, GMax)] true (flip [(GMax, GMax); (GMin, GMax)] true e)) <> ex_goals e.
Proof. exists {| ex_eval := fun _ => None; ex_goals := [([], GMin)] |}. vm_compute. discriminate. Qed.
Print Assumptions C20_broken_table_refuted.
