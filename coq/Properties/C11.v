(* C11 — optimal trials are exactly the non-dominated completed trials. Statements only. *)
From VZ Require Import Base.Prelude Base.XFloat Model.Pareto Proofs.ParetoP.
From VZ Require Model.DominanceIR Gen.Dominance Proofs.DominanceP.
From VZ Require Model.BestTrials Gen.BestTrialsSrc Proofs.BestTrialsP.
From VZ Require Model.Service Model.HandlerIR Model.OptimalIR Gen.OptimalSrc Proofs.OptimalIRP Proofs.OptimalNaNP.

(* spec_optimal ps : for each point, "no point of ps dominates it" (all >=, some >), IEEE comparisons *)

Theorem C11_naive_correct : forall d ps, Forall (good d) ps -> naive_opt ps = spec_optimal ps.
Proof. exact naive_opt_correct. Qed.
Print Assumptions C11_naive_correct.

Theorem C11_naive_against_strict_correct : forall d points against,
  Forall (good d) points -> Forall (good d) against ->
  naive_against true points against = map (fun p => negb (existsb (fun a => dominates a p) against)) points.
Proof. exact naive_against_strict_correct. Qed.
Print Assumptions C11_naive_against_strict_correct.

Theorem C11_naive_against_nonstrict_correct : forall d points against,
  Forall (good d) points -> Forall (good d) against ->
  naive_against false points against = map (fun p => negb (existsb (fun a => weakly_dominates a p) against)) points.
Proof. exact naive_against_nonstrict_correct. Qed.
Print Assumptions C11_naive_against_nonstrict_correct.

(* ListOptimalTrials dominance matrix = the definition, for every value incl. inf (and NaN, under IEEE rules) *)
Theorem C11_service_matrix_correct : forall ys, svc_optimal ys = spec_optimal ys.
Proof. exact svc_optimal_correct. Qed.
Print Assumptions C11_service_matrix_correct.

Theorem C11_rank_counts_dominators : forall ys,
  pareto_rank ys = map (fun y => length (filter (fun q => dominates q y) ys)) ys.
Proof. exact pareto_rank_counts. Qed.
Print Assumptions C11_rank_counts_dominators.

Theorem C11_rank_zero_iff_optimal : forall ys y,
  length (filter (fun q => dominates q y) ys) = 0 <-> spec_optimal_among ys y = true.
Proof. exact rank_zero_iff_optimal. Qed.
Print Assumptions C11_rank_zero_iff_optimal.

Theorem C11_jax_against_correct : forall yy ys,
  jax_against true yy ys = map (fun p => negb (existsb (fun q => dominates q p) ys)) yy.
Proof. exact jax_against_strict_correct. Qed.
Print Assumptions C11_jax_against_correct.

(* sharded filtering: correct for every cut list that descends from len(ys) to 0 (num_shards >= 2) *)
Theorem C11_frontier_correct : forall idx_rev ys,
  desc_chain idx_rev -> hd 0 idx_rev = length ys -> last idx_rev 0 = 0 ->
  is_frontier idx_rev ys = spec_optimal ys.
Proof. exact is_frontier_correct. Qed.
Print Assumptions C11_frontier_correct.

(* num_shards = 1 gives linspace(0,B,1) = [0]: no slice at all, everything is reported optimal *)
Definition C11_frontier_any_shards : Prop := forall idx_rev ys, last idx_rev 0 = 0 -> is_frontier idx_rev ys = spec_optimal ys.
Theorem C11_frontier_one_shard_refuted : ~ C11_frontier_any_shards.
Proof. intros H. specialize (H [0] [[Fin 1]; [Fin 2]] eq_refl). vm_compute in H. discriminate. Qed.
Print Assumptions C11_frontier_one_shard_refuted.

(* divide-and-conquer is_pareto_optimal: FULL statement refuted (ties in the first coordinate) *)
Definition C11_fast_full : Prop := forall fuel thr d ps r, Forall (good d) ps ->
  fast_opt fuel thr ps = FOk r -> r = spec_optimal ps.
Theorem C11_fast_refuted : ~ C11_fast_full.
Proof.
  intros H. specialize (H 10 1 2 [[Fin 1; Fin 5]; [Fin 1; Fin 3]] [true; true]).
  assert (G : Forall (good 2) [[Fin 1; Fin 5]; [Fin 1; Fin 3]]) by (repeat constructor).
  specialize (H G eq_refl). vm_compute in H. discriminate.
Qed.
Print Assumptions C11_fast_refuted.

(* a NaN objective is incomparable, hence never dominated: the dominance MATRIX alone would report it (refuted below); the
   handler therefore does not consider such a trial at all (C11_service_reports_only_considered_trials) *)
Definition C11_nan_never_reported : Prop := forall ys, 
  forallb (fun yb => negb (existsb is_nan (fst yb) && snd yb)) (combine ys (svc_optimal ys)) = true.
Theorem C11_nan_never_reported_refuted : ~ C11_nan_never_reported.
Proof. intros H. specialize (H [[NaN]; [Fin 1]]). vm_compute in H. discriminate. Qed.
Print Assumptions C11_nan_never_reported_refuted.

Example C11_nonvacuous : Forall (good 2) [[Fin 1; Fin 5]; [PInf; NInf]; [Fin 1; Fin 5]; [Fin 0; Fin 0]] /\
  spec_optimal [[Fin 1; Fin 5]; [PInf; NInf]; [Fin 1; Fin 5]; [Fin 0; Fin 0]] = [true; true; true; false].
Proof. split; [repeat constructor|reflexivity]. Qed.

(* THE DOMINANCE TESTS ARE THE SOURCE.  Gen/Dominance.v is regenerated at every run: the entry of the dominance matrix of
   ListOptimalTrials with its reduction (which index is judged follows from the axis of np.any) and negation; the row test,
   stacking and sum of nsga2._pareto_rank; xla_pareto._is_dominated in both strictness modes with the two vmaps and the
   reductions of _is_pareto_optimal_against and pareto_rank.  Their meaning is the model functions the theorems above are about. *)
Theorem C11_source_service_matrix_is_the_model : forall ys,
  DominanceIR.optimal_of Dominance.svc_entry ys ys = svc_optimal ys.
Proof. exact DominanceP.src_svc_optimal. Qed.
Theorem C11_source_ranks_are_the_model : forall ys,
  DominanceIR.rank_of Dominance.nsga_entry ys = pareto_rank ys /\ DominanceIR.rank_of Dominance.jax_strict ys = pareto_rank ys.
Proof. intros ys. split; [exact (DominanceP.src_nsga_rank ys) | exact (DominanceP.src_jax_rank ys)]. Qed.
Theorem C11_source_jax_against_is_the_model : forall (strict : bool) yy baseline,
  DominanceIR.optimal_of (if strict then Dominance.jax_strict else Dominance.jax_nonstrict) yy baseline = jax_against strict yy baseline.
Proof. exact DominanceP.src_jax_against. Qed.
Print Assumptions C11_source_service_matrix_is_the_model.
Print Assumptions C11_source_ranks_are_the_model.
Print Assumptions C11_source_jax_against_is_the_model.
(* hence, with C11_service_matrix_correct: what the source of ListOptimalTrials computes on the considered vectors is the definition *)
Theorem C11_source_service_matrix_correct : forall ys, DominanceIR.optimal_of Dominance.svc_entry ys ys = spec_optimal ys.
Proof. intros ys. rewrite DominanceP.src_svc_optimal. apply C11_service_matrix_correct. Qed.
Print Assumptions C11_source_service_matrix_correct.

(* LISTOPTIMALTRIALS IS THE SOURCE: Gen/OptimalSrc.v is regenerated at every run from the method (block by block, see
   Model/OptimalIR.v); the program it denotes is the model's handler program. *)
Theorem C11_source_list_optimal_is_the_model : forall k,
  HandlerIR.peq (OptimalIR.list_optimal_of OptimalSrc.src_ListOptimalTrials k) (Service.handler (Service.ListOptimalTrials k)).
Proof. exact OptimalIRP.src_list_optimal_is_h_list_optimal. Qed.
Print Assumptions C11_source_list_optimal_is_the_model.

(* the in-memory best-trial query (InRamPolicySupporter.GetBestTrials): its candidate tests and the attributes it reads and
   writes are regenerated from local_policy_supporters.py on every run (Gen/BestTrialsSrc.v).  The candidates are exactly the
   successfully completed trials that report every objective as a number; the query reads only the current trials and the study
   configuration and writes nothing (its answer cannot be a remembered one); and the non-dominated candidates are exactly the
   trials the property describes. *)
Theorem C11_source_best_trials_candidates : forall t,
  BestTrials.is_candidate_of (BestTrials.bs_tests BestTrialsSrc.src_best) t = BestTrials.eligible t.
Proof. intros t. rewrite BestTrialsP.src_tests_are_model. apply BestTrialsP.model_candidate_is_eligible. Qed.
Print Assumptions C11_source_best_trials_candidates.

Theorem C11_source_best_trials_query_is_stateless : BestTrials.stateless BestTrialsSrc.src_best = true.
Proof. exact BestTrialsP.src_stateless. Qed.
Print Assumptions C11_source_best_trials_query_is_stateless.

Theorem C11_source_best_trials_exact : forall ts t,
  In t (BestTrials.best_of (BestTrials.bs_tests BestTrialsSrc.src_best) ts) <->
  In t ts /\ BestTrials.eligible t = true /\
  forall q, In q ts -> BestTrials.eligible q = true -> dominates (BestTrials.vec_of q) (BestTrials.vec_of t) = false.
Proof. exact BestTrialsP.src_best_exact. Qed.
Print Assumptions C11_source_best_trials_exact.

(* what ListOptimalTrials reports (the function `optimal_trials` of the handler model, to which the regenerated handler is proved
   equal above): only trials that SUCCEEDED, report every configured metric, and whose objectives are numbers - infeasible,
   unfinished, partial and NaN trials are never reported *)
Theorem C11_service_reports_only_considered_trials : forall metrics trials t, In t (Service.optimal_trials metrics trials) ->
  Service.tstate_eqb (Service.t_state t) Service.SUCCEEDED = true /\
  exists v, Service.objective_vector metrics t = Some v /\ existsb is_nan v = false /\ length v = length metrics.
Proof. exact OptimalNaNP.optimal_trials_never_nan. Qed.
Print Assumptions C11_service_reports_only_considered_trials.
