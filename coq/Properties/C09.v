(* C09 — study configs, trials and measurements survive the wire format unchanged.  Statements only.
   Gen/EnumMaps.v is regenerated from proto_converters.py (dict literals, if-chains) and the .proto enum numbers. *)
From VZ Require Import Base.Prelude Model.Wire Gen.EnumMaps Model.WireConv Proofs.WireP Model.WireTrial Proofs.WireTrialP.
From VZ Require Model.WireIds.

(* ParameterConfig (any nesting depth, all four kinds, defaults incl. falsy ones, external types, LINEAR/LOG/REVERSE_LOG):
   to proto and back is the identity on every well-formed config (wf = what ParameterConfig.factory produces) *)
Theorem C09_parameter_config_roundtrip : forall p q, wf p -> to_proto p = Some q -> from_proto q = p.
Proof. exact roundtrip. Qed.
Print Assumptions C09_parameter_config_roundtrip.

(* FULL statement without the scale guard: refuted, UNIFORM_DISCRETE is not transmitted *)
Definition C09_parameter_config_full : Prop := forall p q, to_proto p = Some q -> from_proto q = p.
Theorem C09_uniform_discrete_refuted : ~ C09_parameter_config_full.
Proof. intros H. destruct uniform_discrete_lost as (q & E & Hne). exact (Hne (H _ _ E)). Qed.
Print Assumptions C09_uniform_discrete_refuted.

(* enum tables as they are in the source today *)
Theorem C09_scale_roundtrip : forall s n, scale_to_proto s = Some n -> n <> 0%N /\ scale_from_proto n = Some s.
Proof. exact scale_roundtrip. Qed.
Print Assumptions C09_scale_roundtrip.
Theorem C09_study_state_roundtrip : forall s, sstate_from_proto (sstate_to_proto s) = Some s.
Proof. exact sstate_roundtrip. Qed.
Print Assumptions C09_study_state_roundtrip.
Theorem C09_trial_status_roundtrip : forall s inf, s <> PyUnknown ->
  tstatus_from_proto (tstatus_to_proto s inf) = s /\ N.eqb (tstatus_to_proto PyTCompleted inf) TS_INFEASIBLE = inf.
Proof. intros. split; [apply tstatus_roundtrip; auto|apply tstatus_infeasible_roundtrip]. Qed.
Print Assumptions C09_trial_status_roundtrip.

(* Measurement: metrics and step count exact; elapsed time within one nanosecond (exact arithmetic; IEEE rounding of the
   two float expressions is not modelled -- it is tested bit-exactly by the correspondence on dyadic inputs) *)
Theorem C09_measurement_roundtrip : forall m, (0 <= pm_elapsed m)%Q ->
  let m' := meas_from_proto (meas_to_proto m) in
  pm_metrics m' = pm_metrics m /\ pm_steps m' = pm_steps m /\
  (pm_elapsed m' <= pm_elapsed m)%Q /\ (pm_elapsed m < pm_elapsed m' + 1 / 1000000000)%Q.
Proof. exact meas_roundtrip. Qed.
Print Assumptions C09_measurement_roundtrip.

(* TRIAL.  A vz.Trial whose description / worker are not the empty string, whose flags are consistent (a queued trial is
   not stopping or completed, only a completed trial carries a completion time) and whose measurements have non-negative
   elapsed time comes back from to_proto / from_proto as an equal object: id, description, worker, requested flag,
   infeasibility reason (also the empty one), status, parameter names and values (numbers by value: True == 1 == 1.0),
   final and intermediate measurements (elapsed time within one nanosecond), creation and completion time.  Metadata is
   C10's model; IEEE rounding of the time arithmetic is not modelled. *)
Theorem C09_trial_roundtrip : forall t, wf_trial t ->
  exists t', trial_from_proto (trial_to_proto t) = Some t' /\ trial_eqv t t'.
Proof. exact trial_roundtrip. Qed.
Print Assumptions C09_trial_roundtrip.

(* the unguarded statement is REFUTED on the model of the code as it is: description '' comes back as None (known
   finding C09-empty-string-becomes-none) *)
Theorem C09_trial_roundtrip_full_refuted : ~ (forall t, exists t', trial_from_proto (trial_to_proto t) = Some t' /\ trial_eqv t t').
Proof. exact trial_roundtrip_full_refuted. Qed.
Print Assumptions C09_trial_roundtrip_full_refuted.

(* non-vacuity: a depth-3 conditional space with a falsy default is well-formed *)
Example C09_nonvacuous :
  wf (PConf [97%N] TCategorical None [VStr [117%N]; VStr [118%N]] None (Some (VStr [])) ExInternal
        [([VStr [117%N]], PConf [98%N] TInteger (Some (q_of_Z 1, q_of_Z 3)) [] None (Some (VNum (q_of_Z 0))) ExInternal
           [([VNum (q_of_Z 2)], PConf [99%N] TDouble (Some (0, 1)) [] (Some ScLog) (Some (VNum 0)) ExInternal [])])]).
Proof.
  cbn. repeat split; try discriminate;
    try (right; eexists; reflexivity); try (eexists; split; reflexivity); try (do 2 eexists; reflexivity).
  - exists [[117%N]; [118%N]]. split; reflexivity.
  - exists [[117%N]]. split; reflexivity.
  - exists [2%Z]. split; reflexivity.
Qed.

(* the trial ids of an EarlyStopRequest: with the decoder the source uses today (Gen/EnumMaps.v, regenerated at every run) a
   request for all trials (None) and every request naming trials come back as they were; the empty set is the one value the
   wire cannot carry (it shares its encoding with None), and reading the field as it is would turn "all Trials" into "no Trial" *)
Theorem C09_source_early_stop_request_ids_roundtrip : forall o, o <> Some [] ->
  WireIds.dec_ids src_ids_decoder (WireIds.enc_ids o) = o.
Proof. exact WireIds.ids_roundtrip. Qed.
Print Assumptions C09_source_early_stop_request_ids_roundtrip.

Theorem C09_early_stop_request_ids_read_as_is_refuted :
  WireIds.dec_ids WireIds.IdsAsIs (WireIds.enc_ids None) <> None /\ WireIds.enc_ids None = WireIds.enc_ids (Some []).
Proof. split; [discriminate|reflexivity]. Qed.
Print Assumptions C09_early_stop_request_ids_read_as_is_refuted.
