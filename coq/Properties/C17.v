(* C17 — clients receive parameter values in the declared external types.  Statements only. *)
From Coq Require Import Sorting.Sorted Sorting.Permutation.
From VZ Require Import Base.Prelude Model.External Proofs.ExternalP.
From VZ Require Model.ExternalIR Gen.ExternalSrc Proofs.ExternalSrcP.
From VZ Require Model.AutoCast Gen.AutoCastSrc Proofs.AutoCastP.

(* declared external types: booleans arrive as True/False, integer-valued values as integers with the same value,
   floats and internal values unchanged *)
Theorem C17_bool_presented_as_bool :
  cast ExBoolean (YStr TRUE_STR) = YBool true /\ cast ExBoolean (YStr FALSE_STR) = YBool false.
Proof. split; reflexivity. Qed.
Print Assumptions C17_bool_presented_as_bool.
Theorem C17_integer_presented_as_int : forall z,
  cast ExInteger (YFloat (inject_Z z)) = YInt z /\ pyv_eqb (cast ExInteger (YFloat (inject_Z z))) (YFloat (inject_Z z)) = true.
Proof. intros z. split; [apply cast_integer|apply cast_integer_value]. Qed.
Print Assumptions C17_integer_presented_as_int.
Theorem C17_float_and_internal_unchanged : forall q v, cast ExFloat (YFloat q) = YFloat q /\ cast ExInternal v = v.
Proof. intros. split; reflexivity. Qed.
Print Assumptions C17_float_and_internal_unchanged.

(* nothing invented, nothing silently truncated: when trial_parameters does not report an error, the presented names
   are exactly the names the trial carries and every presented value is a cast of the trial's value for that name
   (conditional spaces of any shape) *)
Theorem C17_presented_exactly_trial_parameters : forall roots params,
  let ext := to_external 1000 (map (fun t => (None, t)) roots) params [] [] in
  length ext = length params ->
  Permutation (map fst ext) (map fst params) /\
  (forall n v, In (n, v) ext -> exists v0 e, In (n, v0) params /\ v = cast e v0).
Proof. exact presented_exactly_trial_params. Qed.
Print Assumptions C17_presented_exactly_trial_parameters.
Theorem C17_unconverted_parameter_is_an_error : forall roots params,
  length (to_external 1000 (map (fun t => (None, t)) roots) params [] []) <> length params ->
  trial_parameters roots params = Err EValue.
Proof. intros roots params H. unfold trial_parameters. destruct (Nat.eqb_spec (length (to_external 1000 (map (fun t => (None, t)) roots) params [] [])) (length params)); [contradiction|reflexivity]. Qed.
Print Assumptions C17_unconverted_parameter_is_an_error.

(* name[i]: parsed as (name, i) for every base name without parentheses and every decimal index; plain names are not *)
Theorem C17_indexed_name_parsed : forall base ds, ds <> [] -> forallb is_digit ds = true ->
  forallb (fun c => negb (N.eqb c 40 || N.eqb c 41)) base = true ->
  parse_md (base ++ 91%N :: ds ++ [93%N]) = Some (base, digits_value ds).
Proof. exact parse_md_indexed. Qed.
Print Assumptions C17_indexed_name_parsed.
(* grouped values come out in numeric index order (so x[10] after x[2]), as a permutation of what was collected *)
Theorem C17_group_in_index_order : forall l, Sorted idx_le (sort_idx l) /\ Permutation l (sort_idx l).
Proof. exact sort_idx_spec. Qed.
Print Assumptions C17_group_in_index_order.
Example C17_numeric_not_lexicographic :
  map fst (sort_idx [(10%N, YNone); (2%N, YNone); (0%N, YNone)]) = [0; 2; 10]%N.
Proof. reflexivity. Qed.

(* FULL grouping claim "a plain parameter keeps its own value": refuted when x and x[0] coexist *)
Definition C17_scalar_kept_full : Prop := forall params n v, parse_md n = None -> In (n, v) params ->
  NoDup (map fst params) -> alookup n (group params) = Some (PScalar v).
Theorem C17_scalar_kept_refuted : ~ C17_scalar_kept_full.
Proof.
  intros H. specialize (H collide_params [120%N] (YFloat (9 # 10)) eq_refl (or_introl eq_refl)).
  rewrite collision_loses_scalar in H.
  assert (Hn : NoDup (map fst collide_params)) by (repeat constructor; simpl; intuition discriminate).
  specialize (H Hn). discriminate.
Qed.
Print Assumptions C17_scalar_kept_refuted.

(* ONLY ACTIVE PARAMETERS ARE PRESENTED.  Act roots tr node: a root whose name the trial carries, or a child of an active
   node whose matching parent values contain the value the trial carries for that node (declarative activity, no queue).
   For every conditional forest (any depth, the same name may occur in several subtrees) and every trial (a dict): each
   presented (name, value) belongs to an active node of that name and is the trial's value cast to the node's type ... *)
Theorem C17_presented_are_active : forall roots tr, NoDup (map fst tr) ->
  forall nx, In nx (to_external 1000 (map (fun t => (None, t)) roots) tr [] []) ->
  exists node v, Act roots tr node /\ xt_name node = fst nx /\ alookup (fst nx) tr = Some v /\ snd nx = cast (xt_ext node) v.
Proof. exact presented_are_active. Qed.
Print Assumptions C17_presented_are_active.

(* ... and a trial carrying a parameter that is not an active parameter of the space (unknown, or inactive under the
   values the trial carries) is an error, never silently truncated or accepted *)
Theorem C17_inactive_parameter_is_an_error : forall roots tr n, NoDup (map fst tr) -> In n (map fst tr) ->
  (forall node, Act roots tr node -> xt_name node <> n) -> trial_parameters roots tr = Err EValue.
Proof. exact inactive_is_error. Qed.
Print Assumptions C17_inactive_parameter_is_an_error.

(* THE BREADTH-FIRST LOOP IS THE SOURCE.  Gen/ExternalSrc.v is regenerated at every run from study_config.py: the body of the
   loop of StudyConfig._trial_to_external_values, statement by statement (the three `continue` tests, recording the value,
   the cast, removing the parameter, queueing the children - in that order), its initialisation and condition, and the
   length check of _pytrial_parameters.  Its meaning is the function `to_external` all theorems above are about. *)
Theorem C17_source_loop_is_the_model : forall fuel queue remaining values external,
  ExternalIR.to_external_of ExternalSrc.src_loop_body fuel queue remaining values external
  = to_external fuel queue remaining values external.
Proof. exact ExternalSrcP.src_to_external_is_to_external. Qed.
Print Assumptions C17_source_loop_is_the_model.

(* the external type add_discrete_param declares (Gen/AutoCastSrc.v, regenerated from parameter_config.py on every run) is
   INTEGER exactly when every feasible value is an integer, and a stored feasible value read through the declared type is that
   value - a DISCRETE parameter with a value that is not an integer is never presented through int() *)
Theorem C17_source_autocast_is_the_rule : forall flag fv,
  AutoCast.interp_autocast AutoCastSrc.src_autocast flag fv = AutoCast.declared_ext flag fv.
Proof. exact AutoCastP.src_autocast_is_model. Qed.
Print Assumptions C17_source_autocast_is_the_rule.

Theorem C17_source_discrete_value_presented_unchanged : forall flag fv v, In v fv ->
  exists q, AutoCast.pyv_num (cast (AutoCast.interp_autocast AutoCastSrc.src_autocast flag fv) (YFloat v)) = Some q /\ (q == v)%Q.
Proof. exact AutoCastP.src_presented_value_is_stored. Qed.
Print Assumptions C17_source_discrete_value_presented_unchanged.

Theorem C17_source_presented_as_int_iff_all_integral : forall fv v,
  (exists z, cast (AutoCast.declared_ext true fv) (YFloat v) = YInt z) <-> forallb AutoCast.q_integral fv = true.
Proof. exact AutoCastP.presented_as_int_iff. Qed.
Print Assumptions C17_source_presented_as_int_iff_all_integral.
