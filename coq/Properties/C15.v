(* C15 — numeric encoding of trials is invertible and always decodes into the space.  Statements only. *)
From Coq Require Import Reals.
From VZ Require Import Base.Prelude Model.Space Model.Conv Proofs.SpaceP Proofs.ConvP Gen.Scalers Proofs.ScaleR.
From VZ Require Model.ScaleDispatch Gen.ScaleDispatchSrc Proofs.ScaleDispatchSrcP.
Close Scope R_scope.
Open Scope Q_scope.

(* index encoding: decoding the index of the i-th feasible value returns exactly that value *)
Theorem C15_index_decode : forall c i v, cv_converts c = true -> cv_continuified c = false ->
  pc_type (cv_pc c) <> TDouble -> nth_error (feas_values (cv_pc c)) i = Some v ->
  to_pvalue c (XF (inject_Z (Z.of_nat i))) = DSome v.
Proof. exact decode_index. Qed.
Print Assumptions C15_index_decode.

(* one-hot blocks have exactly one active entry and un-embedding recovers the index *)
Theorem C15_onehot_one_active : forall n i j, (j < n)%nat ->
  length (onehot n i) = n /\ nth j (onehot n i) 0 = (if Nat.eqb j i then 1 else 0).
Proof. intros. split; [apply onehot_length|apply onehot_nth; auto]. Qed.
Print Assumptions C15_onehot_one_active.
Theorem C15_onehot_roundtrip : forall n i, (i < n)%nat -> argmax (onehot n i) = i.
Proof. exact unembed_onehot. Qed.
Print Assumptions C15_onehot_roundtrip.

(* decoding any real value lands in the space (shared with C03) *)
Theorem C15_decode_into_space : forall c x v, wf_pc (cv_pc c) -> cv_clip c = true ->
  to_pvalue c x = DSome v -> in_domain (cv_pc c) v.
Proof. exact decode_in_domain. Qed.
Print Assumptions C15_decode_into_space.

(* objective labels: the sign convention is undone exactly *)
Theorem C15_label_roundtrip : forall flip v, (label_to_metric flip (label_convert flip v) == v)%Q.
Proof. exact label_roundtrip. Qed.
Print Assumptions C15_label_roundtrip.

(* scaling formulas as they are in scaler_from_spec today (Gen/Scalers.v), over the reals, for 0 < lo < hi with
   low = ln lo, high = ln hi, denom = high - low, raw_sum = lo + hi: unit range with the documented orientation,
   strictly increasing, exact inverse *)
Theorem C15_log_scale : forall lo hi, (0 < lo)%R -> (lo < hi)%R ->
  let low := ln lo in let denom := (ln hi - ln lo)%R in
  (forall x, (lo <= x <= hi)%R -> (0 <= log_scale_fn denom low x <= 1)%R) /\
  (log_scale_fn denom low lo = 0 /\ log_scale_fn denom low hi = 1)%R /\
  (forall x y, (0 < x)%R -> (x < y)%R -> (log_scale_fn denom low x < log_scale_fn denom low y)%R) /\
  (forall x, (0 < x)%R -> log_unscale_fn denom low (log_scale_fn denom low x) = x).
Proof.
  intros lo hi H1 H2 low denom. repeat split; intros.
  - apply (log_range lo hi H1 H2 x H).
  - apply (log_range lo hi H1 H2 x H).
  - apply (log_endpoints lo hi H1 H2).
  - apply (log_endpoints lo hi H1 H2).
  - apply (log_monotone lo hi H1 H2); auto.
  - apply (log_roundtrip lo hi H1 H2); auto.
Qed.
Print Assumptions C15_log_scale.

Theorem C15_reverse_log_scale : forall lo hi, (0 < lo)%R -> (lo < hi)%R ->
  let low := ln lo in let high := ln hi in let denom := (ln hi - ln lo)%R in let raw_sum := (lo + hi)%R in
  (forall x, (lo <= x <= hi)%R -> (0 <= rlog_scale_fn denom low raw_sum x <= 1)%R) /\
  (rlog_scale_fn denom low raw_sum lo = 0 /\ rlog_scale_fn denom low raw_sum hi = 1)%R /\
  (forall x y, (lo <= x)%R -> (x < y)%R -> (y <= hi)%R -> (rlog_scale_fn denom low raw_sum x < rlog_scale_fn denom low raw_sum y)%R) /\
  (forall x, (lo <= x <= hi)%R -> rlog_unscale_fn denom high raw_sum (rlog_scale_fn denom low raw_sum x) = x).
Proof.
  intros lo hi H1 H2 low high denom raw_sum. repeat split; intros.
  - apply (rlog_range lo hi H1 H2 x H).
  - apply (rlog_range lo hi H1 H2 x H).
  - apply (rlog_endpoints lo hi H1 H2).
  - apply (rlog_endpoints lo hi H1 H2).
  - apply (rlog_monotone lo hi H1 H2); auto.
  - apply (rlog_roundtrip lo hi H1 H2); auto.
Qed.
Print Assumptions C15_reverse_log_scale.

Theorem C15_linear_scale : forall lo hi, (lo < hi)%R ->
  (forall x, (lo <= x <= hi)%R -> (0 <= lin_scale_fn hi lo x <= 1)%R) /\
  (forall x y, (x < y)%R -> (lin_scale_fn hi lo x < lin_scale_fn hi lo y)%R) /\
  (forall x, lin_unscale_fn hi lo (lin_scale_fn hi lo x) = x).
Proof.
  intros lo hi H. repeat split; intros.
  - apply (lin_range lo hi H x H0).
  - apply (lin_range lo hi H x H0).
  - apply (lin_monotone lo hi H); auto.
  - apply (lin_roundtrip lo hi H).
Qed.
Print Assumptions C15_linear_scale.

(* WHICH formula is applied to which parameter, as scaler_from_spec and ParameterConfig.continuify decide it today
   (Gen/ScaleDispatchSrc.v, regenerated from converters/core.py and parameter_config.py on every run): over a positive range
   lo < hi the formula is the one of the parameter's scale type - also for an INTEGER / DISCRETE parameter that was turned into
   a continuous one (continuify keeps LINEAR, LOG and REVERSE_LOG); a zero-width range is never divided by its width (the single
   value is shifted to 0.5); a log-type scale over a range touching zero is refused, not scaled. *)
Theorem C15_source_formula_follows_scale_type : forall lo hi s, (0 < lo)%Q -> (lo < hi)%Q ->
  ScaleDispatch.dispatch ScaleDispatchSrc.src_dispatch true true lo hi s = ScaleDispatch.OScale (ScaleDispatch.kind_of_scale s) /\
  ScaleDispatch.dispatch ScaleDispatchSrc.src_dispatch true true lo hi (ScaleDispatchSrc.src_continuify_scale s)
    = ScaleDispatch.OScale (ScaleDispatch.kind_of_scale s).
Proof.
  intros lo hi s H1 H2. split.
  - exact (ScaleDispatchSrcP.src_formula_follows_scale lo hi s H1 H2).
  - exact (ScaleDispatchSrcP.src_continuified_formula lo hi s H1 H2).
Qed.
Print Assumptions C15_source_formula_follows_scale_type.

Theorem C15_source_zero_width_is_shifted : forall lo s,
  ScaleDispatch.dispatch ScaleDispatchSrc.src_dispatch true true lo lo s = ScaleDispatch.OShiftHalf.
Proof. exact ScaleDispatchSrcP.src_zero_width_shifts. Qed.
Print Assumptions C15_source_zero_width_is_shifted.

Theorem C15_source_log_scale_refuses_nonpositive : forall lo hi s, (lo < hi)%Q -> (lo <= 0)%Q ->
  (s = ScaleDispatch.SLog \/ s = ScaleDispatch.SReverseLog) ->
  ScaleDispatch.dispatch ScaleDispatchSrc.src_dispatch true true lo hi s = ScaleDispatch.ORefuse.
Proof. exact ScaleDispatchSrcP.src_log_refuses_nonpositive. Qed.
Print Assumptions C15_source_log_scale_refuses_nonpositive.

Example C15_dispatch_nonvacuous :
  ScaleDispatch.dispatch ScaleDispatchSrc.src_dispatch true true (1 # 2) 8 (ScaleDispatchSrc.src_continuify_scale ScaleDispatch.SReverseLog)
    = ScaleDispatch.OScale ScaleDispatch.FRLog /\
  ScaleDispatch.dispatch ScaleDispatchSrc.src_dispatch true true (5 # 2) (5 # 2) ScaleDispatch.SLinear = ScaleDispatch.OShiftHalf.
Proof. split; reflexivity. Qed.
