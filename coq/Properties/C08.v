(* C08 — local, gRPC and split-Pythia deployments behave identically for clients.  Statements only.
   All three deployments run the SAME servicer code (one model, Model/Service.v); they differ in how a server-side
   error reaches the client.  Gen/StatusMap.v is regenerated from grpc_util.handle_exception and
   vizier_client.get_suggestions on every run. *)
From VZ Require Import Base.Prelude Model.Deploy Gen.StatusMap.

(* handle_exception terminates the RPC in both deployments (it used to continue with a real gRPC context) *)
Theorem C08_handle_exception_terminates : handle_terminates_local = true /\ handle_terminates_remote = true.
Proof. split; reflexivity. Qed.
Print Assumptions C08_handle_exception_terminates.

(* errors routed through handle_exception carry the same status code in every deployment *)
Theorem C08_handled_errors_agree : forall e, via_handle_exception e = true ->
  client_error status_of Local true e = client_error status_of Remote true e.
Proof. intros e _. reflexivity. Qed.
Print Assumptions C08_handled_errors_agree.

(* the promised empty suggestion list for a finished (immutable) study, in every deployment *)
Theorem C08_finished_study_gives_empty_list : forall d,
  suggest_view empty_suggestion_statuses (client_error status_of d (via_handle_exception EImmutableStudy) EImmutableStudy)
  = CEmptyList.
Proof. intros []; reflexivity. Qed.
Print Assumptions C08_finished_study_gives_empty_list.

(* locally a missing trial gives the promised ResourceNotFoundError *)
Theorem C08_missing_trial_local : get_trial_view (client_error status_of Local (via_handle_exception ENotFound) ENotFound) = GResourceNotFound.
Proof. reflexivity. Qed.
Print Assumptions C08_missing_trial_local.

(* FULL statement: every server-side error is seen the same way by local and remote clients.  Refuted: errors that
   escape the handler (NotFoundError / KeyError / AlreadyExistsError from the datastore) are the Python exception
   locally and status UNKNOWN remotely; in particular the promised ResourceNotFoundError is not raised remotely. *)
Definition C08_errors_agree_full : Prop := forall e,
  client_error status_of Local (via_handle_exception e) e = client_error status_of Remote (via_handle_exception e) e.
Theorem C08_errors_agree_refuted : ~ C08_errors_agree_full.
Proof. intros H. specialize (H ENotFound). discriminate. Qed.
Print Assumptions C08_errors_agree_refuted.

Theorem C08_missing_trial_remote_refuted :
  get_trial_view (client_error status_of Remote (via_handle_exception ENotFound) ENotFound) <> GResourceNotFound.
Proof. discriminate. Qed.
Print Assumptions C08_missing_trial_remote_refuted.

(* partial: agreement exactly for the errors that go through handle_exception *)
Theorem C08_errors_agree_partial : forall e, via_handle_exception e = true ->
  client_error status_of Local (via_handle_exception e) e = client_error status_of Remote (via_handle_exception e) e.
Proof. intros e H. rewrite H. reflexivity. Qed.
Print Assumptions C08_errors_agree_partial.
