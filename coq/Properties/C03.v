(* C03 — every suggestion lies inside the search space, for every algorithm.  Statements only.
   All algorithms produce their suggestions through DefaultModelInputConverter.to_parameter_values (numpy designers and
   GP designers via TrialToArrayConverter / TrialToModelInputConverter, Eagle via ProblemAndTrialsScaler); the theorems
   are about that common last step.  Gen/Scalers.v is regenerated from converters/core.py on every run. *)
From VZ Require Import Base.Prelude Model.Space Model.Conv Proofs.SpaceP Proofs.ConvP Gen.Scalers Model.Default Proofs.DefaultP.
From VZ Require Model.ScaleDispatch Gen.ScaleDispatchSrc Proofs.ScaleDispatchSrcP.
Close Scope R_scope.
Open Scope Q_scope.

(* decoding ANY value (finite, huge, +-inf) gives a value inside the parameter's domain, for all four kinds, with and
   without continuification, when clipping is on *)
Theorem C03_decode_in_domain : forall c x v, wf_pc (cv_pc c) -> cv_clip c = true ->
  to_pvalue c x = DSome v -> in_domain (cv_pc c) v.
Proof. exact decode_in_domain. Qed.
Print Assumptions C03_decode_in_domain.

(* no construction site of DefaultModelInputConverter in the converters package switches clipping off *)
Theorem C03_all_sites_clip : should_clip_default = true /\
  forallb (fun a => match a with ClipFalse => false | _ => true end) converter_sites = true.
Proof. split; reflexivity. Qed.
Print Assumptions C03_all_sites_clip.

(* without clipping the statement is false (what a should_clip=False site would allow) *)
Theorem C03_noclip_refuted : exists c x v, wf_pc (cv_pc c) /\ to_pvalue c x = DSome v /\ ~ in_domain (cv_pc c) v.
Proof. exact noclip_escapes. Qed.
Print Assumptions C03_noclip_refuted.

(* snapping of continuified INTEGER / DISCRETE parameters returns a closest feasible value *)
Theorem C03_snap_is_nearest : forall x l f, nearest x l = Some f ->
  In f l /\ forall g, In g l -> (qabs_diff f x <= qabs_diff g x)%Q.
Proof. intros x l f H. split; [eapply nearest_in; eauto|eapply nearest_optimal; eauto]. Qed.
Print Assumptions C03_snap_is_nearest.

(* clipping stays inside the bounds and does not move interior values *)
Theorem C03_clip : forall lo hi q, (lo <= hi)%Q ->
  (lo <= qclip lo hi q)%Q /\ (qclip lo hi q <= hi)%Q /\ ((lo < q)%Q -> (q < hi)%Q -> qclip lo hi q = q).
Proof. intros lo hi q H. destruct (qclip_range lo hi q H). repeat split; auto. apply qclip_id. Qed.
Print Assumptions C03_clip.

(* a scaling the algorithms cannot handle is refused: LOG / REVERSE_LOG with a non-positive bound raise *)
Theorem C03_log_scale_refused_for_nonpositive_bounds : log_refuses_nonpositive = true /\ rlog_refuses_nonpositive = true.
Proof. split; reflexivity. Qed.
Print Assumptions C03_log_scale_refused_for_nonpositive_bounds.

(* the default / centre seed (suggest_default.py, formulas regenerated from the source into Gen/SuggestDefault.v): for
   every well-formed parameter of the four types with no declared default it exists and lies in the domain ... *)
Theorem C03_default_seed_in_domain : forall p, wf_def p -> exists v, default_checked p None = Ok v /\ in_domain p v.
Proof. exact default_exists_in_domain. Qed.
Print Assumptions C03_default_seed_in_domain.
(* ... a declared default is handed out exactly when it lies in the domain (otherwise the seeding is refused), and
   whatever is handed out lies in the domain *)
Theorem C03_declared_default : forall p d v, default_checked p (Some d) = Ok v <-> v = d /\ in_domain p d.
Proof. exact declared_default. Qed.
Print Assumptions C03_declared_default.
Theorem C03_default_never_outside : forall p d v, default_checked p d = Ok v -> in_domain p v.
Proof. exact default_checked_in_domain. Qed.
Print Assumptions C03_default_never_outside.
(* the formulas as the source has them: the index is inside the list, the midpoint inside the bounds *)
Theorem C03_default_formulas : (forall n, (0 < n)%nat -> (default_index n < n)%nat) /\
  (forall lo hi, (lo <= hi)%Q -> (lo <= double_mid lo hi)%Q /\ (double_mid lo hi <= hi)%Q) /\
  (forall lo hi, (lo <= hi)%Q -> (lo <= double_single lo hi)%Q /\ (double_single lo hi <= hi)%Q).
Proof. split; [exact default_index_in|split; [exact double_mid_in|exact double_single_in]]. Qed.
Print Assumptions C03_default_formulas.
(* seed_with_default: the answer for an empty study starts with the default and has the requested length; a non-empty
   study is passed to the policy unchanged *)
Theorem C03_seed_wrapper : forall A (d : A) inner,
  (forall count, (0 < count)%nat -> (forall k, length (inner k) = k) ->
     hd_error (seeded d inner 0 count) = Some d /\ length (seeded d inner 0 count) = count) /\
  (forall m count, (0 < m)%nat -> seeded d inner m count = inner count).
Proof. intros A d inner. split; [intros; apply seeded_empty; auto|intros; apply seeded_nonempty; auto]. Qed.
Print Assumptions C03_seed_wrapper.

Example C03_nonvacuous :
  wf_pc (mkPC [112%N] TInteger (-3) 12 [] []) /\
  to_pvalue (mkCv (mkPC [112%N] TInteger (-3) 12 [] []) true true true) XPInf = DSome (RInt (-3)).
Proof. split; [split; [discriminate|intros _; split; reflexivity]|reflexivity]. Qed.
Example C03_default_nonvacuous :
  wf_def (mkPC [120%N] TDiscrete 0 0 [1 # 2; 3 # 2; 5 # 2] []) /\
  default_checked (mkPC [120%N] TDiscrete 0 0 [1 # 2; 3 # 2; 5 # 2] []) None = Ok (RFloat (XF (3 # 2))) /\
  default_checked (mkPC [120%N] TDouble 0 1 [] []) (Some (RFloat (XF 5))) = Err EValue.
Proof. repeat split; try discriminate; try reflexivity. Qed.

(* a parameter with a single value (lo = hi) is never scaled by dividing through its width: scaler_from_spec, as it is today
   (Gen/ScaleDispatchSrc.v), shifts the value to 0.5 whatever the scale type, so encoding a completed trial of such a parameter
   gives a number and the algorithms that learn from the history are not fed 0/0 *)
Theorem C03_source_singleton_range_is_not_divided : forall lo s,
  ScaleDispatch.dispatch ScaleDispatchSrc.src_dispatch true true lo lo s = ScaleDispatch.OShiftHalf.
Proof. exact ScaleDispatchSrcP.src_zero_width_shifts. Qed.
Print Assumptions C03_source_singleton_range_is_not_divided.
