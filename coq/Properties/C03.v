(* C03 — every suggestion lies inside the search space, for every algorithm.  Statements only.
   All algorithms produce their suggestions through DefaultModelInputConverter.to_parameter_values (numpy designers and
   GP designers via TrialToArrayConverter / TrialToModelInputConverter, Eagle via ProblemAndTrialsScaler); the theorems
   are about that common last step.  Gen/Scalers.v is regenerated from converters/core.py on every run. *)
From VZ Require Import Base.Prelude Model.Space Model.Conv Proofs.SpaceP Proofs.ConvP Gen.Scalers.
Close Scope R_scope.
Open Scope Q_scope.

(* decoding ANY value (finite, huge, +-inf) gives a value inside the parameter's domain, for all four kinds, with and
   without continuification, when clipping is on *)
Theorem C03_decode_in_domain : forall c x v, wf_pc (cv_pc c) -> cv_clip c = true ->
  to_pvalue c x = DSome v -> in_domain (cv_pc c) v.
Proof. exact decode_in_domain. Qed.
Print Assumptions C03_decode_in_domain.

(* no construction site of DefaultModelInputConverter in the converters package switches clipping off *)
Theorem C03_all_sites_clip : should_clip_default = true /\
  forallb (fun a => match a with ClipFalse => false | _ => true end) converter_sites = true.
Proof. split; reflexivity. Qed.
Print Assumptions C03_all_sites_clip.

(* without clipping the statement is false (what a should_clip=False site would allow) *)
Theorem C03_noclip_refuted : exists c x v, wf_pc (cv_pc c) /\ to_pvalue c x = DSome v /\ ~ in_domain (cv_pc c) v.
Proof. exact noclip_escapes. Qed.
Print Assumptions C03_noclip_refuted.

(* snapping of continuified INTEGER / DISCRETE parameters returns a closest feasible value *)
Theorem C03_snap_is_nearest : forall x l f, nearest x l = Some f ->
  In f l /\ forall g, In g l -> (qabs_diff f x <= qabs_diff g x)%Q.
Proof. intros x l f H. split; [eapply nearest_in; eauto|eapply nearest_optimal; eauto]. Qed.
Print Assumptions C03_snap_is_nearest.

(* clipping stays inside the bounds and does not move interior values *)
Theorem C03_clip : forall lo hi q, (lo <= hi)%Q ->
  (lo <= qclip lo hi q)%Q /\ (qclip lo hi q <= hi)%Q /\ ((lo < q)%Q -> (q < hi)%Q -> qclip lo hi q = q).
Proof. intros lo hi q H. destruct (qclip_range lo hi q H). repeat split; auto. apply qclip_id. Qed.
Print Assumptions C03_clip.

(* a scaling the algorithms cannot handle is refused: LOG / REVERSE_LOG with a non-positive bound raise *)
Theorem C03_log_scale_refused_for_nonpositive_bounds : log_refuses_nonpositive = true /\ rlog_refuses_nonpositive = true.
Proof. split; reflexivity. Qed.
Print Assumptions C03_log_scale_refused_for_nonpositive_bounds.

Example C03_nonvacuous :
  wf_pc (mkPC [112%N] TInteger (-3) 12 [] []) /\
  to_pvalue (mkCv (mkPC [112%N] TInteger (-3) 12 [] []) true true true) XPInf = DSome (RInt (-3)).
Proof. split; [split; [discriminate|intros _; split; reflexivity]|reflexivity]. Qed.
