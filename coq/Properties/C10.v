(* C10 — metadata is an exact last-writer-wins key-value store across namespaces.
   Only statements here; proofs live in Proofs/. *)
From VZ Require Import Base.Prelude Model.Namespace Model.Metadata Proofs.NamespaceP Proofs.MetadataP Model.Service Proofs.MdRpcP.
From VZ Require Model.NamespaceIR Gen.NamespaceSrc Proofs.NamespaceSrcP.
From Coq Require Import Sorting.Sorted.

(* FULL statement of the namespace claim (refuted on the code as it is): *)
Definition C10_ns_roundtrip_full : Prop := forall ns, decode (encode ns) = ns.
Definition C10_ns_injective_full : Prop := forall a b, encode a = encode b -> a = b.

Theorem C10_ns_roundtrip_refuted : ~ C10_ns_roundtrip_full.
Proof. intros H. destruct roundtrip_refuted as [ns Hn]. exact (Hn (H ns)). Qed.
Print Assumptions C10_ns_roundtrip_refuted.

Theorem C10_ns_injective_refuted : ~ C10_ns_injective_full.
Proof. intros H. destruct injective_refuted as (a & b & Hn & He). exact (Hn (H a b He)). Qed.
Print Assumptions C10_ns_injective_refuted.

(* partial: every namespace none of whose components ends in a backslash *)
Theorem C10_ns_roundtrip_partial : forall ns, ns_ok ns = true -> decode (encode ns) = ns.
Proof. exact parse_encode_ok. Qed.
Print Assumptions C10_ns_roundtrip_partial.

Theorem C10_ns_injective_partial :
  forall a b, ns_ok a = true -> ns_ok b = true -> encode a = encode b -> a = b.
Proof. exact encode_injective_ok. Qed.
Print Assumptions C10_ns_injective_partial.

Theorem C10_guard_nonvacuous : ns_ok [[97; 58; 92; 98]; []; [58]; [92; 58]]%N = true.
Proof. exact ns_ok_nonvacuous. Qed.
Print Assumptions C10_guard_nonvacuous.

(* one merge: each (ns,key) reads the value written last, every other entry untouched *)
Theorem C10_merge_lww : forall old new k,
  lookup k (merge old new) =
  match lookup_last k new with Some v => Some v | None => lookup_last k old end.
Proof. exact merge_lookup. Qed.
Print Assumptions C10_merge_lww.

Theorem C10_merge_canonical : forall old new,
  NoDup (map fst (merge old new)) /\ Sorted kle (merge old new).
Proof. intros; split; [apply merge_nodup|apply merge_sorted]. Qed.
Print Assumptions C10_merge_canonical.

(* any sequence of updates: last writer wins, untouched keys keep the initial value *)
Theorem C10_lww_history : forall ups init k, NoDup (map fst init) ->
  lookup k (fold_left merge ups init) =
  match last_write k ups with Some v => Some v | None => lookup k init end.
Proof. exact lww_fold. Qed.
Print Assumptions C10_lww_history.

Theorem C10_history_canonical : forall ups init, NoDup (map fst init) -> Sorted kle init ->
  NoDup (map fst (fold_left merge ups init)) /\ Sorted kle (fold_left merge ups init).
Proof. exact lww_fold_inv. Qed.
Print Assumptions C10_history_canonical.

Theorem C10_trial_merge_lww : forall tid old ups k,
  lookup k (merge_trial tid old ups) =
  match lookup_last k (map snd (filter (fun u => N.eqb (fst u) tid) ups)) with
  | Some v => Some v | None => lookup_last k old end.
Proof. exact merge_trial_lookup. Qed.
Print Assumptions C10_trial_merge_lww.

(* ---- at the level of the UpdateMetadata RPC (service model): an accepted call stores exactly the merge of the study's
   metadata with the update and, for every trial it names, the merge of that trial's metadata with its updates; every other
   trial, the operations and the other studies are untouched; a call naming a missing trial answers with error details and
   leaves the stored state syntactically unchanged *)
Theorem C10_update_metadata_rpc : forall s k n smd tmd po,
  get_node k (nodes s) = Some n -> immutable (n_study n) = false ->
  if md_names_ok n tmd
  then exists s' n', step s (UpdateMetadata k smd tmd, po) = (s', Done RpEmpty) /\ get_node k (nodes s') = Some n' /\
         s_state (n_study n') = s_state (n_study n) /\ s_metrics (n_study n') = s_metrics (n_study n) /\
         s_md (n_study n') = merge (s_md (n_study n)) smd /\
         n_ops n' = n_ops n /\ n_es n' = n_es n /\
         (forall id t, get_trial id (n_trials n) = Some t ->
            get_trial id (n_trials n') =
              Some (if mem_N id (map fst tmd) then with_md t (merge_trial id (t_md t) tmd) else t)) /\
         (forall id, get_trial id (n_trials n) = None -> get_trial id (n_trials n') = None) /\
         (forall k', k' <> k -> get_node k' (nodes s') = get_node k' (nodes s))
  else step s (UpdateMetadata k smd tmd, po) = (s, Done RpMdError).
Proof. exact update_metadata_rpc. Qed.
Print Assumptions C10_update_metadata_rpc.

(* any sequence of UpdateMetadata calls on a study, accepted or rejected: each (namespace, key) of the study's metadata
   holds the value of the last ACCEPTED write, untouched keys keep their value *)
Theorem C10_update_metadata_history : forall k po ups s n key,
  get_node k (nodes s) = Some n -> immutable (n_study n) = false -> NoDup (map fst (s_md (n_study n))) ->
  exists n', get_node k (nodes (run_all (md_rpcs k po ups) s)) = Some n' /\
    lookup key (s_md (n_study n')) =
      match last_write key (accepted n ups) with Some v => Some v | None => lookup key (s_md (n_study n)) end.
Proof.
  intros k po ups s n key Hn Him Hnd. destruct (update_metadata_history k po ups s n Hn Him) as [n' [Hn' [Hmd _]]].
  exists n'. split; [exact Hn'|]. rewrite Hmd. apply lww_fold. exact Hnd.
Qed.
Print Assumptions C10_update_metadata_history.

(* ENCODE AND PARSE ARE THE SOURCE.  Gen/NamespaceSrc.v is regenerated at every run from common.py: the escape table and the
   join of Namespace.encode; the prologue of _parse (empty string, ONE leading separator removed, split on the separator) and
   the four branches of its loop (test, join or append, drop the escape character or not, next join flag).  Their meaning is
   the pair of functions every namespace theorem above is about. *)
Theorem C10_source_parse_is_the_model : forall arg,
  NamespaceIR.parse_of NamespaceSrc.src_sep NamespaceSrc.src_esc NamespaceSrc.src_prologue NamespaceSrc.src_branches arg = parse arg.
Proof. exact NamespaceSrcP.src_parse_is_parse. Qed.
Print Assumptions C10_source_parse_is_the_model.
Theorem C10_source_encode_is_the_model : forall ns,
  NamespaceIR.encode_of NamespaceSrc.src_sep NamespaceSrc.src_escape_table ns = encode ns.
Proof. exact NamespaceSrcP.src_encode_is_encode. Qed.
Print Assumptions C10_source_encode_is_the_model.
