(* C16 — search-space definitions are validated and membership is decided correctly.  Statements only. *)
From Coq Require Import Sorting.Sorted Sorting.Permutation.
From VZ Require Import Base.Prelude Model.Space Proofs.SpaceP.
From VZ Require Model.FactoryIR Gen.FactorySrc Proofs.FactorySrcP.
From VZ Require Model.MembershipIR Gen.MembershipSrc Proofs.MembershipSrcP.

(* one parameter: contains(value) is True exactly for values inside the domain (in_domain: number between the bounds for
   DOUBLE, integral number between the bounds for INTEGER, number equal to a feasible value for DISCRETE, string or
   rendered bool among the categories for CATEGORICAL); nan, +-inf, strings for numeric parameters are outside *)
Theorem C16_parameter_contains_iff : forall p v, pc_contains p v = Accept <-> in_domain p v.
Proof. exact contains_iff. Qed.
Print Assumptions C16_parameter_contains_iff.

(* a flat space accepts an assignment exactly when it names exactly the parameters of the space (nothing missing, nothing
   extra) and every value is inside its parameter's domain *)
Theorem C16_space_contains_iff : forall space ps, NoDup (map fst ps) -> NoDup (map pc_name space) ->
  (space_contains space ps = Accept <->
   (forall n, In n (map fst ps) <-> In n (map pc_name space)) /\
   (forall p, In p space -> exists v, lookup_param (pc_name p) ps = Some v /\ in_domain p v)).
Proof. exact space_contains_iff. Qed.
Print Assumptions C16_space_contains_iff.

(* invalid definitions are rejected when built *)
Theorem C16_rejects_empty_name : forall b f, exists e, factory [] b f = Err e.
Proof. exact factory_empty_name. Qed.
Print Assumptions C16_rejects_empty_name.
Theorem C16_rejects_bounds_and_feasible : forall n0 n b v f, exists e, factory (n0 :: n) (Some b) (v :: f) = Err e.
Proof. exact factory_both. Qed.
Print Assumptions C16_rejects_bounds_and_feasible.
Theorem C16_rejects_duplicate_feasible : forall n0 n f, has_dup f = true -> f <> [] -> exists e, factory (n0 :: n) None f = Err e.
Proof. exact factory_duplicates. Qed.
Print Assumptions C16_rejects_duplicate_feasible.
Theorem C16_rejects_mixed_feasible : forall n0 n f, f <> [] -> forallb is_num f = false -> forallb is_str f = false ->
  exists e, factory (n0 :: n) None f = Err e.
Proof. exact factory_mixed_kinds. Qed.
Print Assumptions C16_rejects_mixed_feasible.
Theorem C16_rejects_nonfinite_feasible : forall n0 n f, f <> [] -> forallb is_num f = true ->
  forallb (fun v => match fin_q v with Some _ => true | None => false end) f = false ->
  exists e, factory (n0 :: n) None f = Err e.
Proof. exact factory_nonfinite_feasible. Qed.
Print Assumptions C16_rejects_nonfinite_feasible.
Theorem C16_rejects_nonfinite_bounds : forall n0 n lo hi, (fin_q lo = None \/ fin_q hi = None) ->
  exists e, factory (n0 :: n) (Some (lo, hi)) [] = Err e.
Proof. exact factory_nonfinite_bounds. Qed.
Print Assumptions C16_rejects_nonfinite_bounds.
Theorem C16_rejects_reversed_bounds : forall n0 n lo hi l h, fin_q lo = Some l -> fin_q hi = Some h -> (h < l)%Q ->
  exists e, factory (n0 :: n) (Some (lo, hi)) [] = Err e.
Proof. exact factory_reversed_bounds. Qed.
Print Assumptions C16_rejects_reversed_bounds.
Theorem C16_rejects_mixed_bounds : forall n0 n lo hi, (is_int lo && is_int hi) || (is_float lo && is_float hi) = false ->
  exists e, factory (n0 :: n) (Some (lo, hi)) [] = Err e.
Proof. exact factory_mixed_bounds. Qed.
Print Assumptions C16_rejects_mixed_bounds.
Theorem C16_rejects_duplicate_name : forall space p, In (pc_name p) (map pc_name space) -> exists e, space_add space p = Err e.
Proof. exact space_add_refuses_duplicate. Qed.
Print Assumptions C16_rejects_duplicate_name.

(* what is accepted is normalised *)
Theorem C16_discrete_normalised : forall n f p, factory n None f = Ok p -> forallb is_num f = true -> f <> [] ->
  pc_type p = TDiscrete /\ Sorted qle_rel (pc_nums p) /\
  Permutation (flat_map (fun v => match fin_q v with Some q => [q] | None => [] end) f) (pc_nums p) /\
  has_dup f = false /\ pc_name p = n.
Proof. exact factory_discrete_normalised. Qed.
Print Assumptions C16_discrete_normalised.
Theorem C16_bounds_normalised : forall n lo hi p, factory n (Some (lo, hi)) [] = Ok p ->
  (pc_lo p <= pc_hi p)%Q /\ fin_q lo = Some (pc_lo p) /\ fin_q hi = Some (pc_hi p) /\
  pc_type p = (if is_int lo then TInteger else TDouble) /\ pc_name p = n.
Proof. exact factory_bounds_normalised. Qed.
Print Assumptions C16_bounds_normalised.
Theorem C16_names_stay_unique : forall space p sp', NoDup (map pc_name space) -> space_add space p = Ok sp' -> NoDup (map pc_name sp').
Proof. exact space_add_keeps_nodup. Qed.
Print Assumptions C16_names_stay_unique.

(* walking a conditional space one parameter at a time (dfs or bfs) visits exactly the parameters that are active under
   the values chosen so far, for every tree, every choice function *)
Theorem C16_builder_visits_exactly_active : forall choose roots bfs fuel, (work_size roots <= fuel)%nat ->
  forall t, In t (build fuel bfs choose roots) <-> active choose roots t.
Proof. exact builder_visits_active. Qed.
Print Assumptions C16_builder_visits_exactly_active.

(* ... and it validates every chosen value, whatever the parameter's type: a value outside the domain (atom 0) of any
   active parameter is refused, and an answer lists exactly the active parameters with the values chosen for them *)
Theorem C16_builder_validates_every_value : forall choose roots bfs fuel, (work_size roots <= fuel)%nat ->
  ((exists t, active choose roots t /\ choose t = 0%N) -> exists e, build_v fuel bfs choose roots = Err e) /\
  (forall l, build_v fuel bfs choose roots = Ok l ->
     (forall t, In t (map fst l) <-> active choose roots t) /\ Forall (fun tv => snd tv = choose (fst tv) /\ snd tv <> 0%N) l) /\
  ((forall t, active choose roots t -> choose t <> 0%N) -> exists l, build_v fuel bfs choose roots = Ok l).
Proof. exact builder_validates. Qed.
Print Assumptions C16_builder_validates_every_value.

Example C16_nonvacuous :
  exists p, factory [120%N] (Some (RInt 1, RInt 5)) [] = Ok p /\ pc_contains p (RFloat (XF 2)) = Accept /\
            pc_contains p (RFloat XPInf) = Refuse /\ pc_contains p (RFloat (XF (5 # 2))) = Refuse /\ pc_contains p (RBool true) = Accept.
Proof. eexists. repeat split; reflexivity. Qed.

(* THE FACTORY IS THE SOURCE.  Gen/FactorySrc.v is regenerated at every run from parameter_config.py: ParameterConfig.factory as a
   decision tree (the order of its tests and what each outcome is), with the bodies of _validate_bounds,
   _get_feasible_points_and_bounds and _get_categories pinned.  Its meaning is the function `factory` the theorems above are about. *)
Theorem C16_source_factory_is_the_model : forall name bounds feasible,
  FactoryIR.factory_of FactorySrc.src_factory FactorySrc.src_helpers name bounds feasible = factory name bounds feasible.
Proof. exact FactorySrcP.src_factory_is_factory. Qed.
Print Assumptions C16_source_factory_is_the_model.

(* the membership test of one parameter, regenerated statement by statement from ParameterType.assert_correct_type,
   ParameterConfig._assert_feasible / _assert_bounds / _assert_in_feasible_values / contains on every run (Gen/MembershipSrc.v;
   the ParameterValue casts are compared with pinned texts): its meaning is pc_contains, the function the theorems above are about *)
Theorem C16_source_membership_is_the_model : forall p v,
  MembershipIR.interp_member MembershipSrc.src_member p v = Some (pc_contains p v).
Proof. exact MembershipSrcP.src_member_is_contains. Qed.
Print Assumptions C16_source_membership_is_the_model.
