(* C07 — RAM and SQL datastores are observationally equivalent behind the service.
   Both backends are tied, by trace-level correspondence, to ONE model of the DataStore contract (Model/Service.v exec);
   equivalence of the backends is then equality of two runs of the same function.  What needs an argument is the two
   places where the implementations compute differently. *)
From VZ Require Import Base.Prelude Model.Service Proofs.ServiceP Proofs.ReachP.
From VZ Require Model.RamShape Gen.RamShapes.

(* RAM: next operation number = len(ops)+1.  SQL: max(operation_number)+1.  Equal for operations numbered 1..k *)
Theorem C07_operation_numbering_agrees : forall l, numbered_from 1 l ->
  N.of_nat (length l) = fold_left (fun m o => N.max m (o_num o)) l 0%N.
Proof. exact len_eq_max. Qed.
Print Assumptions C07_operation_numbering_agrees.

(* ... and in every state reachable from the initial state by any sequence of RPCs the operations of every worker ARE
   numbered 1..k (invariant proved in Proofs/NumberedP.v), so the two numbering schemes agree on all reachable states *)
Theorem C07_operation_numbering_agrees_on_reachable_states : forall ops k n c,
  get_node k (nodes (run_all ops init_state)) = Some n ->
  N.of_nat (length (filter (fun o => N.eqb (o_client o) c) (n_ops n))) =
  fold_left (fun m o => N.max m (o_num o)) (filter (fun o => N.eqb (o_client o) c) (n_ops n)) 0%N.
Proof. exact numbering_agrees_reachable. Qed.
Print Assumptions C07_operation_numbering_agrees_on_reachable_states.

(* the model is a function of the call sequence: two servers fed the same calls and oracle answers agree *)
Theorem C07_same_calls_same_observations : forall ops s1 s2, s1 = s2 ->
  run_outcomes ops s1 = run_outcomes ops s2 /\ run_all ops s1 = run_all ops s2.
Proof. intros ops s1 s2 ->. split; reflexivity. Qed.
Print Assumptions C07_same_calls_same_observations.

(* delete + re-create under the same name: a fresh study, operation numbering restarts (kernel-evaluated history) *)
Theorem C07_recreate_is_fresh :
  let mk := (CreateStudy 1 1 false (mkS SS_ACTIVE [(1%N, true)] []), PFail EOther) in
  let ops := [mk; (SuggestTrials (1, 1)%N 1 1, PDeliver [5%N] [] []); (DeleteStudy (1, 1)%N, PFail EOther); mk;
              (SuggestTrials (1, 1)%N 1 1, PDeliver [6%N] [] [])] in
  match run_outcomes ops init_state with
  | [_; _; _; _; Done (RpOp o)] => N.eqb (o_num o) 1 && Nat.eqb (length (o_trials o)) 1 &&
                                    match o_trials o with [t] => N.eqb (t_id t) 1 | _ => false end
  | _ => false
  end = true.
Proof. vm_compute. reflexivity. Qed.
Print Assumptions C07_recreate_is_fresh.

(* THE RAM DATASTORE'S SOURCE AGREES WITH THE MODEL'S PRIMITIVES.  Gen/RamShapes.v is regenerated at every run from
   ram_datastore.py: for each of the 20 DataStore methods whether its dict lookups are wrapped into NotFoundError, whether
   an insertion is guarded by AlreadyExistsError, whether a missing trial is refused before the store, whether it works
   under the datastore lock and whether it copies what it returns and what it stores.  Checked in the kernel against `exec`
   evaluated on a state where nothing exists, where only the study exists and where everything addressed exists: the error
   class (or success) of every primitive in each of the three situations is what the source's structure gives; every
   method is locked and alias-free (so that a pure function of the stored state can be its model); update_metadata checks
   every trial before it writes. *)
Theorem C07_ram_source_agrees_with_the_model_primitives : RamShape.ram_table_ok RamShapes.ram_shapes = true.
Proof. vm_compute. reflexivity. Qed.
Print Assumptions C07_ram_source_agrees_with_the_model_primitives.
