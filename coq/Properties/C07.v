From VZ Require Import Base.Prelude Model.Service.
Theorem C07_placeholder : True. Proof. exact I. Qed.
Print Assumptions C07_placeholder.
