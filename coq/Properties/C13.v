(* C13 — a restarted stateful algorithm continues exactly like one that never stopped. *)
From VZ Require Import Base.Prelude Model.Restart Gen.Serial Proofs.RestartP.
From VZ Require Model.GridIR Gen.GridSrc Proofs.GridSrcP.

(* The shape of the argument for every designer: if dump -> fresh instance -> load gives an instance related to the old one
   by a relation R that is preserved by every step and forces equal outputs (R = "indistinguishable through public
   behaviour"), then inserting restarts before ANY subset of steps of ANY history changes no output. *)
Theorem C13_restart_indistinguishable :
  forall (St Md In Out : Type) (step : St -> In -> St * Out) (dump : St -> Md) (load : Md -> option St) (R : St -> St -> Prop),
  (forall a b c, R a b -> R b c -> R a c) ->
  (forall s s' i, R s s' -> snd (step s i) = snd (step s' i) /\ R (fst (step s i)) (fst (step s' i))) ->
  (forall s, exists s', load (dump s) = Some s' /\ R s' s) ->
  forall ins s s', R s' s ->
  exists outs sf, run_restarts step dump load s' ins = Some (outs, sf) /\
                  outs = fst (run_live step s (map snd ins)) /\ R sf (snd (run_live step s (map snd ins))).
Proof. exact restart_equiv. Qed.
Print Assumptions C13_restart_indistinguishable.

(* what the source says today: every attribute that suggest()/update() change is read by dump() and set by load(), and
   load() reads exactly the metadata keys dump() writes (lists regenerated from the designers on every run) *)
Definition ser_class_ok (c : ser_class) : bool :=
  subset_str (sc_mutated c) (sc_dump_attrs c) && subset_str (sc_mutated c) (sc_load_attrs c) &&
  subset_str (sc_load_keys c) (sc_dump_keys c) && subset_str (sc_dump_keys c) (sc_load_keys c).
Theorem C13_state_is_dumped : forallb ser_class_ok ser_classes = true /\ length ser_classes = 5%nat.
Proof. split; reflexivity. Qed.
Print Assumptions C13_state_is_dumped.

(* str(int) / int(str) as used by every dump *)
Theorem C13_int_str_roundtrip : forall z, py_int (py_str_int z) = Some z.
Proof. exact py_int_str. Qed.
Print Assumptions C13_int_str_roundtrip.
Theorem C13_optional_int_str_roundtrip : forall o, py_optint (py_str_optint o) = Some o.
Proof. exact py_optint_str. Qed.
Print Assumptions C13_optional_int_str_roundtrip.

(* grid search *)
Theorem C13_grid_restart_exact : forall s, grid_load (grid_dump s) = Some s.
Proof. exact grid_load_dump. Qed.
Print Assumptions C13_grid_restart_exact.

Theorem C13_grid_every_point_once_per_period : forall dims k, Forall (fun d => (0 < d)%N) dims ->
  let pts := map (digits dims) (nseq (k * volume dims) (N.to_nat (volume dims))) in
  NoDup pts /\ (forall xs, digits_ok dims xs = true <-> In xs pts).
Proof. exact grid_period_exactly_once. Qed.
Print Assumptions C13_grid_every_point_once_per_period.

(* hosted in the service: whatever the batch sizes and wherever the server restarts, the concatenated suggestions are the
   grid points in index order (hence, by the theorem above, every point exactly once before any repeats) *)
Theorem C13_grid_batches_and_restarts : forall dims ins,
  exists outs sf,
    run_restarts (grid_step dims) grid_dump grid_load {| g_index := 0; g_seed := None |} ins = Some (outs, sf) /\
    concat outs = map (digits dims) (nseq 0 (total (map snd ins))).
Proof.
  intros dims ins. destruct (grid_restarts_never_fail dims ins {| g_index := 0; g_seed := None |}) as [outs [sf H]].
  exists outs, sf. split; [exact H|]. eapply grid_restarts_enumerate; eauto.
Qed.
Print Assumptions C13_grid_batches_and_restarts.

(* quasi-random search: the state is (position, seed); the sequence is a function of both *)
Theorem C13_quasi_random_restart : forall Pt (halton : Z -> N -> Pt) ins s,
  run_restarts (qr_step Pt halton) qr_dump qr_load s ins =
  Some (fst (run_live (qr_step Pt halton) s (map snd ins)), snd (run_live (qr_step Pt halton) s (map snd ins))).
Proof. exact qr_restarts_same. Qed.
Print Assumptions C13_quasi_random_restart.

(* eagle: the firefly pool comes back in the same dict order (the order feeds get_shuffled_flies) *)
Theorem C13_eagle_pool_order_restored : eagle_decoder_walks_items_in_order = true /\
  forall Fly (p : pool Fly), pool_load (pool_dump eagle_pool_sort_keys p) = Some p.
Proof. split; [reflexivity|]. intros Fly p. exact (pool_load_dump Fly p). Qed.
Print Assumptions C13_eagle_pool_order_restored.
Theorem C13_eagle_sorted_keys_refuted : exists p : pool nat, pool_load (pool_dump true p) <> Some p.
Proof. exact pool_sort_keys_refuted. Qed.
Print Assumptions C13_eagle_sorted_keys_refuted.
Theorem C13_eagle_codec_keys : subset_str eagle_decoder_keys eagle_encoder_keys = true.
Proof. reflexivity. Qed.
Print Assumptions C13_eagle_codec_keys.

(* evolutionary designers (NSGA-II): population, phase and counter *)
Theorem C13_evolution_restart : forall Pop Trial (select : Pop -> list Trial -> Pop) fsa ins s,
  run_restarts (evo_step select fsa) (evo_dump true) evo_load s ins =
  Some (fst (run_live (evo_step select fsa) s (map snd ins)), snd (run_live (evo_step select fsa) s (map snd ins))).
Proof. exact evo_restarts_same. Qed.
Print Assumptions C13_evolution_restart.
Theorem C13_evolution_without_counter_refuted :
  exists ins : list (bool * list unit),
    option_map fst (run_restarts (evo_step (fun (p : unit) _ => p) 2) (evo_dump false) evo_load {| e_pop := tt; e_seen := 0 |} ins)
    <> Some (fst (run_live (evo_step (fun (p : unit) _ => p) 2) {| e_pop := tt; e_seen := 0 |} (map snd ins))).
Proof. exact evo_without_counter_refuted. Qed.
Print Assumptions C13_evolution_without_counter_refuted.

(* CMA-ES: optimiser state and the partially evaluated population *)
Theorem C13_cmaes_restart : forall Opt Row tell ask pop ins (s : cma_st Opt Row),
  run_restarts (cma_step tell ask pop) (cma_dump true) cma_load s ins =
  Some (fst (run_live (cma_step tell ask pop) s (map snd ins)), snd (run_live (cma_step tell ask pop) s (map snd ins))).
Proof. exact cma_restarts_same. Qed.
Print Assumptions C13_cmaes_restart.

(* arrays travel as nested lists plus shape *)
Theorem C13_array_nesting_roundtrip : forall A w rows (l : list A), length l = (w * rows)%nat ->
  unchunks (chunks w rows l) = l /\ length (chunks w rows l) = rows.
Proof. intros. split; [apply unchunks_chunks; assumption|apply chunks_shape; assumption]. Qed.
Print Assumptions C13_array_nesting_roundtrip.

Example C13_nonvacuous :
  map (digits [2; 3]%N) (nseq 0 6) = [[0;0];[1;0];[0;1];[1;1];[0;2];[1;2]]%N /\
  py_str_int (-120) = [45;49;50;48]%N /\ grid_load (grid_dump {| g_index := 17; g_seed := Some 5%Z |}) = Some {| g_index := 17; g_seed := Some 5%Z |}.
Proof. repeat split; reflexivity. Qed.

(* GridSearchDesigner.dump / load as they are today (Gen/GridSrc.v, regenerated from designers/grid.py on every run): a dump
   loaded into ANY fresh instance - built with another shuffle seed or none, as the hosted policies build it - gives back the
   dumped instance: position, seed, and the grid ordering re-derived from the restored seed *)
Theorem C13_source_grid_restart_exact : forall fresh s, GridIR.consistent s ->
  GridIR.interp_load GridSrc.src_grid fresh (GridIR.interp_dump (GridIR.gs_dump GridSrc.src_grid) s) = Some s.
Proof. exact GridSrcP.src_grid_restart_exact. Qed.
Print Assumptions C13_source_grid_restart_exact.

Example C13_source_grid_nonvacuous :
  GridIR.interp_load GridSrc.src_grid {| GridIR.gf_index := 0; GridIR.gf_seed := None; GridIR.gf_order := None |}
    (GridIR.interp_dump (GridIR.gs_dump GridSrc.src_grid) {| GridIR.gf_index := 7; GridIR.gf_seed := Some 0%Z; GridIR.gf_order := Some 0%Z |})
  = Some {| GridIR.gf_index := 7; GridIR.gf_seed := Some 0%Z; GridIR.gf_order := Some 0%Z |}.
Proof. reflexivity. Qed.
