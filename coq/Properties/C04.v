From VZ Require Import Base.Prelude Model.Service Model.Conc.
Theorem C04_placeholder : True. Proof. exact I. Qed.
Print Assumptions C04_placeholder.
