(* C04 — concurrent clients: every interleaving is equivalent to a serial order.  Statements only.
   run_sched fuel sched (start s rpcs): the RPCs run as threads from state s; scheduling points are datastore primitive
   calls and lock acquisitions; `sched` is ANY list of thread ids (a disabled choice falls back to the first enabled). *)
From VZ Require Import Base.Prelude Base.XFloat Model.Metadata Model.Service Model.ServiceEq Model.Conc
                       Proofs.ConcP Proofs.DeadlockP Proofs.IsolationP Proofs.LockCoverP Proofs.StableP.
From VZ Require Gen.ServiceLocks Model.LockTable.

(* no two trials with one id: for any number of concurrent calls, any schedule, any prefix *)
Theorem C04_unique_ids_all_interleavings : forall prefix rpcs fuel sched,
  ids_ok (c_state (run_sched fuel sched (start (run_all prefix init_state) rpcs))).
Proof. intros. apply run_sched_ids_ok. cbn [start c_state]. apply run_all_ids_ok. apply init_ids_ok. Qed.
Print Assumptions C04_unique_ids_all_interleavings.

(* the lock discipline of every handler: the operation lock is taken with nothing held, a study/owner lock with nothing
   or only the operation lock held, releases are LIFO, a handler returns holding nothing *)
Theorem C04_lock_discipline : forall r, wf [] (handler r).
Proof. exact wf_handler. Qed.
Print Assumptions C04_lock_discipline.

(* no deadlock: in every configuration reachable by any schedule of any number of calls, if a call is unfinished then
   some thread can take a step *)
Theorem C04_no_deadlock : forall s rpcs fuel sched,
  let c := run_sched fuel sched (start s rpcs) in all_finished c = false -> first_enabled c <> None.
Proof. exact no_deadlock. Qed.
Print Assumptions C04_no_deadlock.

(* THE READ-MODIFY-WRITE SECTIONS ARE PROTECTED.  Static: in every handler every datastore call that writes trials, a study or
   metadata is made while the per-study lock of that study is held, every call that writes a suggestion / early-stopping
   operation while the operation lock is held, and a study is created under its owner's lock (study deletion is a single
   datastore primitive and takes none).  Dynamic: under every schedule of any number of calls no lock is ever held by two
   threads.  Together: two writes to one study never interleave. *)
Theorem C04_writes_are_made_under_their_lock : forall r, covered [] (handler r).
Proof. exact writes_are_covered. Qed.
Print Assumptions C04_writes_are_made_under_their_lock.

Theorem C04_mutual_exclusion : forall s rpcs fuel sched, exclusive (run_sched fuel sched (start s rpcs)).
Proof. intros. apply mutual_exclusion. Qed.
Print Assumptions C04_mutual_exclusion.

(* NO LOST UPDATE.  In every configuration reached by any schedule of any number of calls: while a thread holds the
   per-study lock of study k, no step of any other thread changes the study record, the trials or the metadata of k.  What
   a handler read under the lock is therefore still what is stored when it writes back.  (The deletion / re-creation of the
   whole study takes no study lock and is excluded: known finding C04-guard-outside-lock.) *)
Theorem C04_no_lost_update : forall s rpcs fuel sched i j ti tj k c',
  let c := run_sched fuel sched (start s rpcs) in
  i <> j -> nth_error (c_threads c) i = Some ti -> existsb (lock_eqb (LStudy k)) (th_held ti) = true ->
  nth_error (c_threads c) j = Some tj -> ~ is_study_delete_or_create k (th_prog tj) ->
  cstep c j = Some c' -> protected_part k (c_state c') = protected_part k (c_state c).
Proof. exact no_lost_update. Qed.
Print Assumptions C04_no_lost_update.

(* THE SAME FACTS ABOUT THE SOURCE.  Gen/ServiceLocks.v is regenerated from vizier_service.py at every run: for every RPC
   method its datastore call sites in source order with the servicer locks that lexically enclose them, and how its
   with-statements nest.  Re-checked in the kernel on that table: every writing datastore call is made under its lock;
   every read that feeds a rewrite (get_trial before update_trial, load_study before update_study, max_trial_id directly
   before create_trial, the operation number before the operation record) is made under the same lock; the operation
   lock is never taken inside another lock. *)
Theorem C04_source_writes_under_lock : LockTable.writes_under_lock = true.
Proof. vm_compute. reflexivity. Qed.
Theorem C04_source_rmw_reads_under_lock : LockTable.rmw_reads_under_lock = true.
Proof. vm_compute. reflexivity. Qed.
Theorem C04_source_lock_order : LockTable.lock_order_ok = true.
Proof. vm_compute. reflexivity. Qed.
(* persisted algorithm state: in the methods that take the operation lock the study handed to Pythia is loaded, and Pythia's
   metadata delta is written back, under that lock - two overlapping suggestion calls never start from the same stored state *)
Theorem C04_source_algorithm_state_under_operation_lock :
  LockTable.algorithm_state_under_op_lock = true /\
  LockTable.methods_taking_op_lock = LockTable.expected_op_lock_methods.
Proof. vm_compute. split; reflexivity. Qed.
Theorem C04_source_all_rpc_methods_listed : List.length LockTable.methods_listed = 18.
Proof. vm_compute. reflexivity. Qed.
Print Assumptions C04_source_rmw_reads_under_lock.

(* DIFFERENT STUDIES NEVER INTERFERE.  Two calls of any kind (except creation / deletion / listing of studies) that address
   different studies, started in any state, end with the same replies, the same owners and the same stored data under
   EVERY pair of complete schedules - hence every interleaving equals both serial orders.  (Every datastore primitive
   reads and writes only the node of its study; each thread is simulated step by step by the same thread running alone.) *)
Theorem C04_different_studies_any_schedule : forall s a b k1 k2 fuel sched fuel' sched',
  rpc_local (fst a) = Some k1 -> rpc_local (fst b) = Some k2 -> k1 <> k2 ->
  let c := run_sched fuel sched (start s [a; b]) in
  let c' := run_sched fuel' sched' (start s [a; b]) in
  all_finished c = true -> all_finished c' = true ->
  results c = results c' /\ owners (c_state c) = owners (c_state c') /\
  forall k, get_node k (nodes (c_state c)) = get_node k (nodes (c_state c')).
Proof. exact different_studies_any_schedule. Qed.
Print Assumptions C04_different_studies_any_schedule.

(* non-vacuity: a suggestion on one study interleaved call by call with a completion on another one finishes, and so do
   the two serial schedules (kernel-evaluated) *)
Example C04_different_studies_instance :
  let prefix := [(CreateStudy 1 1 false (mkS SS_ACTIVE [(1%N, true)] []), PFail EOther);
                 (CreateStudy 1 2 false (mkS SS_ACTIVE [(1%N, true)] []), PFail EOther);
                 (SuggestTrials (1, 2)%N 1 1, PDeliver [5%N] [] [])] in
  let s := run_all prefix init_state in
  let a := (SuggestTrials (1, 1)%N 1 2, PDeliver [7%N; 8%N; 9%N] [] []) in
  let b := (CompleteTrial (1, 2)%N 1 [(1%N, Fin 3)] false, PFail EOther) in
  all_finished (run_sched 400 [0; 1; 0; 1; 0; 1; 0; 1; 0; 1] (start s [a; b])) = true /\
  all_finished (run_sched 400 (repeat 0 60) (start s [a; b])) = true /\
  all_finished (run_sched 400 (repeat 1 60) (start s [a; b])) = true.
Proof. vm_compute. repeat split. Qed.

(* FULL statement: every complete interleaving ends like some serial order (same results, same stored state).
   Refuted on the model of the code as it is: the immutability guard is checked before the study lock is taken, so an
   UpdateMetadata that passed the guard is applied after a concurrent SetStudyState(INACTIVE) whose reply does not
   contain it -- no serial order produces these two replies. *)
Definition serial_like (prefix rpcs : list (rpc * pythia_out)) (sched : list nat) : bool :=
  let s := run_all prefix init_state in
  let fin := run_sched 400 sched (start s rpcs) in
  let same (order : list nat) :=
    let fin' := run_sched 400 order (start s rpcs) in
    list_eqb (opt_eqb outcome_eqb) (results fin) (results fin') &&
    snapshot_eqb (snapshot CLIENTS OWNERS (c_state fin)) (snapshot CLIENTS OWNERS (c_state fin')) in
  (* the two serial orders of a pair: all of thread 0 first, or all of thread 1 first *)
  same (repeat 0 60) || same (repeat 1 60).
Definition C04_full_pairs : Prop := forall prefix a b sched, serial_like prefix [a; b] sched = true.

Definition toctou_prefix : list (rpc * pythia_out) :=
  [(CreateStudy 1 1 false (mkS SS_ACTIVE [(1%N, true)] []), PFail EOther)].
Definition toctou_a : rpc * pythia_out := (UpdateMetadata (1, 1)%N [(([], [117%N]), (0%N, [97%N]))] [], PFail EOther).
Definition toctou_b : rpc * pythia_out := (SetStudyState (1, 1)%N SS_INACTIVE, PFail EOther).

Theorem C04_full_refuted : ~ C04_full_pairs.
Proof.
  intros H. specialize (H toctou_prefix toctou_a toctou_b [1; 0; 1; 1; 0; 0]). vm_compute in H. discriminate.
Qed.
Print Assumptions C04_full_refuted.

(* the same pair IS serial-like under schedules that do not split guard and lock (sanity of the witness) *)
Example C04_witness_sanity :
  serial_like toctou_prefix [toctou_a; toctou_b] [0; 0; 0; 1; 1; 1] = true /\
  serial_like toctou_prefix [toctou_a; toctou_b] [1; 1; 1; 0; 0; 0] = true.
Proof. split; vm_compute; reflexivity. Qed.

(* THE PROGRAMS ABOVE ARE THE SOURCE.  The handler programs `handler r` that the theorems of this file run (under the interleaving /
   crash semantics) are the programs regenerated from vizier_service.py at every run (see C01_source_handlers_are_the_model;
   equality through the standard library's functional extensionality). *)
From VZ Require Proofs.AllHandlersP.
Theorem C04_source_handlers_equal_the_model : forall r, AllHandlersP.handler_from_source_all r = Service.handler r.
Proof. exact AllHandlersP.all_source_handlers_equal_the_model. Qed.
Print Assumptions C04_source_handlers_equal_the_model.
