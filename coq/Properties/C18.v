(* C18 — output warping keeps the ranking of trials and always yields finite labels. *)
From VZ Require Import Base.Prelude Model.Warp Gen.Warpers Proofs.WarpP Proofs.WarpR.
From Coq Require Import Reals.
Close Scope R_scope.
Open Scope Q_scope.

(* what the source says today: the formulas of the half-rank, log and infeasible components and the two pipelines are the
   ones modelled, and the standard-deviation estimate falls through on a zero or overflowed estimate *)
Theorem C18_source_as_modelled :
  halfrank_formula_as_modelled = true /\ infeasible_formula_as_modelled = true /\ pipelines_as_modelled = true /\
  std_guards = [GPositiveFinite; GPositiveFinite].
Proof. repeat split; reflexivity. Qed.
Print Assumptions C18_source_as_modelled.

(* InfeasibleWarperComponent, exact: same length, feasible entries keep order and ties, infeasible entries land strictly
   below every feasible one, unwarp undoes warp *)
Theorem C18_infeasible_warper : forall l,
  length (infeasible_warp l) = length l /\
  (forall i j a b wa wb, nth_error l i = Some (Some a) -> nth_error l j = Some (Some b) ->
     nth_error (infeasible_warp l) i = Some wa -> nth_error (infeasible_warp l) j = Some wb ->
     (a < b <-> wa < wb) /\ (a == b <-> wa == wb)) /\
  (forall i j b wi wj, nth_error l i = Some None -> nth_error l j = Some (Some b) ->
     nth_error (infeasible_warp l) i = Some wi -> nth_error (infeasible_warp l) j = Some wj -> wi < wj) /\
  (forall i a w, nth_error l i = Some (Some a) -> nth_error (infeasible_unwarp l (infeasible_warp l)) i = Some w -> w == a).
Proof.
  intros l. split; [apply infeasible_length|]. split; [intros; eapply infeasible_order; eauto|].
  split; [intros; eapply infeasible_below_feasible; eauto|intros; eapply infeasible_unwarp_warp; eauto].
Qed.
Print Assumptions C18_infeasible_warper.

(* HalfRankComponent: every quantile handed to the normal quantile function lies in (0, 1/2) and grows with the label *)
Theorem C18_halfrank_quantiles : forall u med y, (exists z, In z u /\ z == y) -> y < med ->
  0 < hr_quantile u med y /\ hr_quantile u med y < 1 # 2 /\
  (forall y2, y < y2 -> y2 < med -> hr_quantile u med y < hr_quantile u med y2).
Proof.
  intros u med y Hin Hlt. destruct (hr_quantile_range u med y Hin Hlt). repeat split; auto.
  intros y2 H1 H2. apply hr_quantile_mono; auto.
Qed.
Print Assumptions C18_halfrank_quantiles.

(* ... and the standard deviation that scales them is positive whenever a label lies below the median *)
Theorem C18_halfrank_std_positive : forall u thr, (exists z, In z u /\ ~ z == thr) -> 0 < var_used u thr.
Proof. exact var_used_pos. Qed.
Print Assumptions C18_halfrank_std_positive.

(* hence, for any strictly increasing quantile function that is negative below 1/2 and any positive square root:
   distinct labels stay distinct and in order, equal labels stay equal, labels at or above the median are untouched,
   labels below it stay below it, missing entries stay missing *)
Theorem C18_halfrank_keeps_ranking : forall (ppf root : Q -> Q),
  (forall a b, 0 < a -> a < b -> b < 1 -> ppf a < ppf b) -> (forall a, 0 < a -> a < 1 # 2 -> ppf a < 0) ->
  (forall v, 0 < v -> 0 < root v) ->
  forall l, length l <> 1%nat ->
  (forall i y, nth_error l i = Some (Some y) -> nth_error (halfrank_num ppf root l) i = Some (Some (hr_entry ppf root l y))) /\
  (forall i, nth_error l i = Some None -> nth_error (halfrank_num ppf root l) i = Some None) /\
  (forall a b, In (Some a) l -> In (Some b) l -> a < b -> hr_entry ppf root l a < hr_entry ppf root l b) /\
  (forall a b, a == b -> hr_entry ppf root l a == hr_entry ppf root l b) /\
  (forall a, In (Some a) l -> (median_q (finite_vals l) <= a -> hr_entry ppf root l a = a) /\
                              (a < median_q (finite_vals l) -> hr_entry ppf root l a < median_q (finite_vals l))).
Proof.
  intros ppf root H1 H2 H3 l Hl. split; [intros; apply halfrank_nth; auto|]. split; [intros; apply halfrank_nth_missing; auto|].
  split; [intros; apply halfrank_entry_order; auto|]. split; [intros; apply halfrank_entry_ties; auto|].
  intros; apply halfrank_entry_shape; auto.
Qed.
Print Assumptions C18_halfrank_keeps_ranking.

(* LogWarperComponent over the reals, for the formulas in the source today *)
Theorem C18_log_warper : forall o mn mx : R, (1 < o)%R -> (mn < mx)%R ->
  (forall y1 y2, (y1 < y2)%R -> (y2 <= mx)%R -> (log_warp_fn o mn mx y1 < log_warp_fn o mn mx y2)%R) /\
  (forall y, (mn <= y <= mx)%R -> (- (1 / 2) <= log_warp_fn o mn mx y <= 1 / 2)%R) /\
  (forall y, (y <= mx)%R -> log_unwarp_fn o mn mx (log_warp_fn o mn mx y) = y).
Proof.
  intros o mn mx Ho Hr. split; [intros; apply log_warp_monotone; auto|].
  split; [intros; apply log_warp_range; auto|intros; apply log_unwarp_warp; auto].
Qed.
Print Assumptions C18_log_warper.

(* a constant array (all finite labels equal): the formula in the source today does not divide by the zero range; every label is
   mapped to 1/2, the value of the best label, and un-warping returns the label *)
Theorem C18_log_warper_constant_labels : forall o mx : R,
  (match log_warp_constant_fn with Some f => (f o mx mx = 1 / 2)%R | None => False end) /\
  (log_unwarp_fn o mx mx (1 / 2) = mx)%R.
Proof. intros o mx. split; [apply log_warp_constant_is_half|apply log_unwarp_constant]. Qed.
Print Assumptions C18_log_warper_constant_labels.

(* ZScoreLabels / NormalizeLabels are affine with a positive slope *)
Theorem C18_affine_components : forall a b x y, 0 < a -> (x < y <-> a * x + b < a * y + b).
Proof. exact affine_order. Qed.
Print Assumptions C18_affine_components.
Theorem C18_normalize_slope : forall lo hi mn mx, lo < hi -> mn < mx -> 0 < (hi - lo) / (mx - mn).
Proof. exact normalize_scale_pos. Qed.
Print Assumptions C18_normalize_slope.

Example C18_nonvacuous :
  map Qred (infeasible_warp [Some 1; None; Some 3]) = [1 # 8; (-15) # 8; 17 # 8] /\
  halfrank_sym [Some 5; Some 1; Some 2; Some 5; None] =
    [Keep 5; Rank ((1 # 2) * (inject_Z 1 - (1 # 2)) / (inject_Z 2 + 0)); Rank ((1 # 2) * (inject_Z 2 - (1 # 2)) / (inject_Z 2 + 0)); Keep 5; Missing].
Proof. split; vm_compute; reflexivity. Qed.
