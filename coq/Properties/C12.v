(* C12 — algorithms get each completed trial exactly once, and all active trials.  Statements only.
   serve_all inc rqs: what Designer.update receives, request by request, from IdDeduplicatingTrialLoader as used by
   _SerializableDesignerPolicyBase.suggest (kept rqs = the policy state is carried over or restored: dump/load keep
   the incorporated-id set). *)
From VZ Require Import Base.Prelude Model.TrialCache Proofs.TrialCacheP.
From VZ Require Model.TrialCacheIR Gen.TrialCacheSrc Proofs.TrialCacheSrcP Model.PolicyIR Gen.PolicySrc Proofs.PolicySrcP.

(* guard: ids are unique and <= max_trial_id at every request, and max_trial_id never decreases (hist_ok) *)
Theorem C12_exactly_once_partial : forall rqs, hist_ok 0 rqs ->
  let outs := serve_all [] (kept rqs) in
  (* at most once over the whole life of the study *)
  NoDup (concat (map fst outs)) /\
  (* at least once: whatever is completed at request k has been delivered by request k *)
  (forall k rq, nth_error rqs k = Some rq -> forall i, In i (completeds (snd rq)) ->
      In i (concat (map fst (firstn (S k) outs)))) /\
  (* only completed trials are delivered as completed; the active set is exactly the trials ACTIVE at that moment *)
  (forall k rq out, nth_error rqs k = Some rq -> nth_error outs k = Some out ->
      (forall i, In i (fst out) -> In i (completeds (snd rq))) /\ snd out = actives (snd rq)).
Proof. exact exactly_once. Qed.
Print Assumptions C12_exactly_once_partial.

(* one call: delivered = completed and not yet incorporated; afterwards incorporated = before + delivered *)
Theorem C12_single_call : forall inc maxid trials d inc',
  world_ok maxid trials -> inc_ok inc maxid -> newly inc maxid trials = (d, inc') ->
  (forall i, In i d <-> (In i (completeds trials) /\ ~ In i inc)) /\
  (forall i, In i inc' <-> (In i inc \/ In i d)) /\ NoDup d /\ inc_ok inc' maxid.
Proof. exact newly_spec. Qed.
Print Assumptions C12_single_call.

(* FULL statement (no guard on max_trial_id): refuted. Trials 4 and 5 are deleted (5 was incorporated), then trial 3
   completes: len(incorporated) = max_trial_id = 3 and trial 3 is never delivered. *)
Definition C12_full : Prop := forall rqs,
  (fix ok (rqs : list request) := match rqs with [] => True | rq :: r => world_ok (fst rq) (snd rq) /\ ok r end) rqs ->
  forall k rq, nth_error rqs k = Some rq -> forall i, In i (completeds (snd rq)) ->
  In i (concat (map fst (serve_all [] (kept rqs)))).
Theorem C12_full_refuted : ~ C12_full.
Proof.
  intros H. apply never_delivered.
  apply (H bad_hist bad_hist_worlds 1 (3, [mkTI 1 true false; mkTI 2 true false; mkTI 3 true false]) eq_refl 3).
  simpl. auto.
Qed.
Print Assumptions C12_full_refuted.

(* a policy rebuilt from scratch gets the complete current sets *)
Theorem C12_fresh_policy_gets_all : forall rq, serve_fresh rq = (completeds (snd rq), actives (snd rq)).
Proof. reflexivity. Qed.
Print Assumptions C12_fresh_policy_gets_all.

(* a policy whose state was lost (decode failure) starts over: its fresh designer receives every completed trial *)
Theorem C12_lost_state_gets_all : forall (inc : list nat) rq, world_ok (fst rq) (snd rq) ->
  forall i, In i (fst (fst (serve [] rq))) <-> In i (completeds (snd rq)).
Proof.
  intros inc [mx tr] Hw i. cbn [fst snd] in *. unfold serve. cbn [fst snd]. destruct (newly [] mx tr) as [d inc'] eqn:E.
  assert (H0 : inc_ok [] mx) by (split; [constructor|intros x []]).
  destruct (newly_spec [] mx tr d inc' Hw H0 E) as (Hd & _). cbn [fst]. rewrite Hd. simpl. tauto.
Qed.
Print Assumptions C12_lost_state_gets_all.

Example C12_nonvacuous : hist_ok 0 [(2, [mkTI 1 true false; mkTI 2 false true]); (3, [mkTI 1 true false; mkTI 2 true false; mkTI 3 false true])].
Proof.
  cbn [hist_ok fst snd]. unfold world_ok. cbn [map ti_id].
  split; [lia|]. split; [split; [nodup_nat|]|].
  - intros t Hin; simpl in Hin; repeat (destruct Hin as [<-|Hin]; [simpl; lia|]); destruct Hin.
  - split; [lia|]. split; [split; [nodup_nat|]|exact I].
    intros t Hin; simpl in Hin; repeat (destruct Hin as [<-|Hin]; [simpl; lia|]); destruct Hin.
Qed.

(* THE LOADER IS THE SOURCE.  Gen/TrialCacheSrc.v is regenerated at every run from trial_caches.py: the guard, the set
   expressions (which ids are asked for, what is added to the incorporated set), the status filter of
   get_newly_completed_trials, and what dump / load / clear do with the set.  Their meaning is the function `newly` all
   theorems above are about; a restart (dump, fresh object, load) keeps the set, and an unreadable dump is a harmless decode
   error after which the policy starts over (C12_lost_state_gets_all). *)
Theorem C12_source_loader_is_the_model : forall inc maxid trials,
  TrialCacheIR.newly_of TrialCacheSrc.src_newly inc maxid trials = newly inc maxid trials.
Proof. exact TrialCacheSrcP.src_newly_is_newly. Qed.
Print Assumptions C12_source_loader_is_the_model.

Theorem C12_source_restart_keeps_the_cache :
  (forall inc, TrialCacheIR.reload TrialCacheSrc.src_dump TrialCacheSrc.src_load inc = inc) /\
  TrialCacheSrc.src_load = TrialCacheIR.LoadSetOfList true true /\ TrialCacheSrc.src_clear = TrialCacheIR.ClearToEmptySet.
Proof. repeat split. Qed.
Print Assumptions C12_source_restart_keeps_the_cache.

(* THE POLICIES ARE THE SOURCE.  Gen/PolicySrc.v is regenerated at every run from designer_policy.py: the steps of
   DesignerPolicy.suggest (fresh designer, ALL completed, ALL active, update) and of _SerializableDesignerPolicyBase.suggest
   (initialise / restore, NEWLY completed up to max_trial_id from the id cache, ALL active, update, suggest, dump under the policy's
   namespace), and _initialize_designer (a DecodeError starts over with a fresh designer and a cleared id cache).  What
   Designer.update receives according to these steps is what `serve` / `serve_fresh` say, and the state is dumped after the update. *)
Theorem C12_source_stateful_policy_is_the_model : forall inc lost rq,
  PolicyIR.run_policy PolicySrc.src_initialise PolicySrc.src_stateful_policy inc lost rq
  = (Some (fst (serve (if lost then [] else inc) rq)), snd (serve (if lost then [] else inc) rq)).
Proof. exact PolicySrcP.src_stateful_policy_is_serve. Qed.
Theorem C12_source_fresh_policy_is_the_model : forall inc lost rq,
  fst (PolicyIR.run_policy PolicySrc.src_initialise PolicySrc.src_fresh_policy inc lost rq) = Some (serve_fresh rq).
Proof. exact PolicySrcP.src_fresh_policy_is_serve_fresh. Qed.
Theorem C12_source_state_is_dumped_after_the_update : PolicyIR.dumps_after_update PolicySrc.src_stateful_policy false = true.
Proof. exact PolicySrcP.src_state_is_dumped_after_the_update. Qed.
Print Assumptions C12_source_stateful_policy_is_the_model.
Print Assumptions C12_source_fresh_policy_is_the_model.
