(* Extended values with IEEE comparison semantics: only order matters for the users of this file. *)
From VZ Require Export Base.Prelude.

Inductive xf := Fin (z : Z) | PInf | NInf | NaN.

Definition xgt (a b : xf) : bool :=
  match a, b with
  | NaN, _ | _, NaN => false
  | Fin x, Fin y => Z.ltb y x
  | PInf, PInf => false
  | PInf, _ => true
  | _, PInf => false
  | NInf, _ => false
  | Fin _, NInf => true
  end.
Definition xeq (a b : xf) : bool :=
  match a, b with
  | Fin x, Fin y => Z.eqb x y
  | PInf, PInf | NInf, NInf => true
  | _, _ => false
  end.
Definition xge (a b : xf) : bool := xgt a b || xeq a b.
Definition xle (a b : xf) : bool := xge b a.
Definition xlt (a b : xf) : bool := xgt b a.
Definition xneg (a : xf) : xf :=
  match a with Fin z => Fin (- z) | PInf => NInf | NInf => PInf | NaN => NaN end.
Definition is_nan (a : xf) : bool := match a with NaN => true | _ => false end.
Definition xf_same (a b : xf) : bool :=   (* structural equality, NaN = NaN *)
  match a, b with NaN, NaN => true | _, _ => xeq a b end.

Definition vec := list xf.
Fixpoint all2 (f : xf -> xf -> bool) (a b : vec) : bool :=
  match a, b with
  | x :: a', y :: b' => f x y && all2 f a' b'
  | _, _ => true
  end.
Fixpoint any2 (f : xf -> xf -> bool) (a b : vec) : bool :=
  match a, b with
  | x :: a', y :: b' => f x y || any2 f a' b'
  | _, _ => false
  end.
Definition vec_nonan (a : vec) : bool := forallb (fun x => negb (is_nan x)) a.
