(* Shared vocabulary: strings as code-point lists, lexicographic order, result type. *)
From Coq Require Export List NArith ZArith Bool Lia Arith.
Export ListNotations.

Definition str := list N.

Fixpoint str_eqb (a b : str) : bool :=
  match a, b with
  | [], [] => true
  | x :: a', y :: b' => N.eqb x y && str_eqb a' b'
  | _, _ => false
  end.

Lemma str_eqb_spec a b : reflect (a = b) (str_eqb a b).
Proof.
  revert b; induction a as [|x a IH]; intros [|y b]; simpl; try (constructor; congruence).
  destruct (N.eqb_spec x y) as [->|Hn]; simpl.
  - destruct (IH b) as [->|Hn]; constructor; congruence.
  - constructor; congruence.
Qed.

Lemma str_eqb_refl a : str_eqb a a = true.
Proof. destruct (str_eqb_spec a a); congruence. Qed.

Lemma str_eqb_eq a b : str_eqb a b = true <-> a = b.
Proof. destruct (str_eqb_spec a b); split; congruence. Qed.

(* Python's str comparison is lexicographic on code points. *)
Fixpoint str_ltb (a b : str) : bool :=
  match a, b with
  | [], [] => false
  | [], _ :: _ => true
  | _ :: _, [] => false
  | x :: a', y :: b' => if N.ltb x y then true else if N.eqb x y then str_ltb a' b' else false
  end.

Definition str_leb (a b : str) : bool := negb (str_ltb b a).

(* error classes: the class, never the message *)
Inductive errclass :=
| ENotFound | EAlreadyExists | EImmutableStudy | EImmutableTrial | EValue | EKey | EType
| ENotImplemented | EIndex | ERuntime | EInvalidParam | EUnavailable | EOther.

Definition errclass_eqb (a b : errclass) : bool :=
  match a, b with
  | ENotFound, ENotFound | EAlreadyExists, EAlreadyExists | EImmutableStudy, EImmutableStudy
  | EImmutableTrial, EImmutableTrial | EValue, EValue | EKey, EKey | EType, EType
  | ENotImplemented, ENotImplemented | EIndex, EIndex | ERuntime, ERuntime
  | EInvalidParam, EInvalidParam | EUnavailable, EUnavailable | EOther, EOther => true
  | _, _ => false
  end.

Inductive res (A : Type) := Ok (a : A) | Err (e : errclass).
Arguments Ok {A} a.
Arguments Err {A} e.

Fixpoint list_eqb {A} (eqb : A -> A -> bool) (a b : list A) : bool :=
  match a, b with
  | [], [] => true
  | x :: a', y :: b' => eqb x y && list_eqb eqb a' b'
  | _, _ => false
  end.

Definition opt_eqb {A} (eqb : A -> A -> bool) (a b : option A) : bool :=
  match a, b with
  | None, None => true
  | Some x, Some y => eqb x y
  | _, _ => false
  end.
