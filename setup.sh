#!/bin/sh
# Builds the Rocq development (full .vo build). Offline, files on disk only.
cd "$(dirname "$0")/coq" || exit 2
export PATH=/usr/local/bin:/usr/bin:/bin
if grep -rnE '\b(Admitted|admit|Axiom|Parameter|Conjecture|Admit Obligations)\b|Unset Guard|bypass_check|type-in-type|impredicative-set' --include=*.v Base Model Proofs Properties Gen 2>/dev/null; then
  echo "forbidden construct found" >&2; exit 3
fi
rm -rf cases/*
# regenerate the translator output from /repo's working tree, so that the build never uses a stale coq/Gen
(cd .. && env PYTHONPATH="$PWD" PYTHONHASHSEED=0 VERIF_REPO="${VERIF_REPO:-/repo}" /venv/bin/python -m harness.gen_all) || echo "setup: a translator refused the source; the affected check will report it"
coq_makefile -f _CoqProject -o Makefile || exit 2
timeout 3000 make -j16 || exit 2
echo "setup ok"
