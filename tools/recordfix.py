#!/usr/bin/env python3
"""tools/recordfix.py <property> <seed-name> <files changed, comma separated> <what failed> <what it needs> [commit]:
records the LAST commit of /repo (a `fix:` commit) in known_findings.json (`fixed`) and stores its reverse patch as a regression
seed under seeded/<seed-name>/."""
import json, os, subprocess, sys
prop, name, files, what, needs = sys.argv[1:6]
rev = sys.argv[6] if len(sys.argv) > 6 else 'HEAD'
h = subprocess.check_output(['git', '-C', '/repo', 'log', '--format=%h %s', '-1', rev]).decode().strip()
commit, subject = h.split(' ', 1)
assert subject.startswith('fix:'), subject
d = json.load(open('/verif/known_findings.json'))
entry = 'fixed: property=%s %s %s' % (prop, commit, what)
if not any(commit in x for x in d['fixed']):
  d['fixed'].append(entry)
json.dump(d, open('/verif/known_findings.json', 'w'), indent=1)
sd = '/verif/seeded/' + name
os.makedirs(sd, exist_ok=True)
open(sd + '/patch.diff', 'w').write(subprocess.check_output(['git', '-C', '/repo', 'diff', rev, rev + '~1', '--', 'vizier']).decode())
json.dump({'seed': name, 'property': prop, 'origin': 'reverse patch of fix commit %s (defect of the pinned tree): %s' % (commit, subject),
           'files_changed': files.split(','), 'what_the_change_does': what, 'what_it_needs_to_manifest': needs}, open(sd + '/meta.json', 'w'), indent=1)
print('recorded', commit, name)
