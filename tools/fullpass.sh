#!/bin/sh
# tools/fullpass.sh SEED [tier] : every check on the current tree with the given seed; prints one line per check
cd /verif
seed="$1"; tier="${2:-quick}"
for i in $(seq -w 1 20); do
  start=$(date +%s)
  VERIF_SEED=$seed ./check C$i $tier > /tmp/fullpass_${seed}_C$i.log 2>&1; rc=$?
  end=$(date +%s)
  echo "seed=$seed C$i exit=$rc $((end-start))s $(grep -c '^VIOLATION' /tmp/fullpass_${seed}_C$i.log) violations $(grep -c '^KNOWN' /tmp/fullpass_${seed}_C$i.log) known"
done
