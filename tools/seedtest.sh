#!/bin/sh
# tools/seedtest.sh <seed-name> <Cxx> [tier] : apply the seeded patch to /repo, run the check, undo.
name="$1"; p="$2"; tier="${3:-quick}"
d=/verif/seeded/$name
git -C /repo apply "$d/patch.diff" || { echo "patch does not apply"; exit 3; }
cd /verif && ./check "$p" "$tier" > /tmp/seedtest_$name.log 2>&1; rc=$?
git -C /repo checkout -- . 
(cd /verif && PYTHONPATH=/verif /venv/bin/python -m harness.gen_all >/dev/null 2>&1)
echo "seed $name check $p $tier -> exit $rc"; grep -E "^VIOLATION|^KNOWN" /tmp/seedtest_$name.log | cut -c1-300
exit $rc
