#!/bin/sh
# tools/allseeds.sh : apply every seeded change in turn, run the property's quick check, record the outcome in seeded/<id>/meta.json
cd /verif
export VERIF_EVIDENCE_DIR=/verif/.scratch/evidence_seeded   # evidence/ is for runs on the unchanged tree
for d in seeded/*/; do
  name=$(basename "$d"); prop=$(echo "$name" | cut -c1-3); [ -f "$d/check_with" ] && prop=$(cat "$d/check_with")
  [ -f "$d/patch.diff" ] || continue
  if ! git -C /repo apply --check "/verif/$d/patch.diff" 2>/dev/null; then echo "$name: patch does not apply"; continue; fi
  git -C /repo apply "/verif/$d/patch.diff"
  start=$(date +%s)
  ./check "$prop" quick > "/tmp/allseeds_$name.log" 2>&1; rc=$?
  end=$(date +%s)
  git -C /repo checkout -- .; git -C /repo clean -fdq -e google_vizier.egg-info -- vizier
  (cd /verif && PYTHONPATH=/verif /venv/bin/python -m harness.gen_all >/dev/null 2>&1)
  /venv/bin/python tools/seedmeta.py "$name" "$prop" "$rc" "$((end-start))" "/tmp/allseeds_$name.log"
  echo "$name -> exit $rc ($((end-start)) s)"
done
