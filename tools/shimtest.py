"""Run upstream test modules that cannot import in this sandbox, in-process, after installing the proto shim."""
import sys
sys.path.insert(0, '/verif')
from harness import boot
boot.boot()
import pytest
sys.exit(pytest.main(['-q', '-p', 'no:cacheprovider', '--timeout=900'] + sys.argv[1:]))
