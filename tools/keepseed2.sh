#!/bin/sh
# tools/keepseed2.sh Cxx slug : store the round-2 seeded change of /tmp/wt2_Cxx under /verif/seeded/Cxx-<slug>/
p="$1"; slug="$2"; w=/tmp/wt2_$p; d=/verif/seeded/$p-$slug
mkdir -p "$d"
git -C "$w" diff > "$d/patch.diff"
cp "$w"/demo_$p.py "$d/" 2>/dev/null
cp "$w/seed_meta.json" "$d/agent_meta.json" 2>/dev/null
echo "$d: $(wc -l < "$d/patch.diff") diff lines"
