#!/bin/sh
# tools/keepseed.sh Cxx name : store the seeded change from /tmp/wt_Cxx under /verif/seeded/<name>/
p="$1"; name="$2"; wt=/tmp/wt_$p; d=/verif/seeded/$name
mkdir -p "$d"
git -C "$wt" diff > "$d/patch.diff"
cp "$wt"/demo_*.py "$d/" 2>/dev/null
cp "$wt/seed_meta.json" "$d/agent_meta.json" 2>/dev/null
echo "stored $d: $(wc -l < $d/patch.diff) diff lines"
