#!/usr/bin/env python3
"""tools/mkprompts.py N : write /tmp/vzshim/promptN_Cxx.txt for seed round N (one per property) and create the worktrees."""
import glob, json, os, subprocess, sys
n = int(sys.argv[1])
props = [json.loads(l) for l in open('/verif/properties.jsonl')]
for p in props:
  pid = p['id']
  prop_txt = open('/tmp/vzshim/prop_%s.txt' % pid).read()
  earlier = []
  for d in sorted(glob.glob('/verif/seeded/%s-*' % pid)):
    for f in ('meta.json', 'agent_meta.json'):
      try:
        m = json.load(open(os.path.join(d, f)))
        files = m.get('files_changed') or []
        if not files or files == 'None':
          files = [l[6:].strip() for l in open(os.path.join(d, 'patch.diff')) if l.startswith('+++ b/')]
        if str(m.get('what_the_change_does')) in ('None', ''):
          m['what_the_change_does'] = (m.get('origin') or '') + ' (see the file)'
        earlier.append('- [%s] %s: %s' % (os.path.basename(d)[4:], ', '.join(files) if isinstance(files, list) else files,
                                         str(m.get('what_the_change_does', ''))[:260].replace('\n', ' ')))
        break
      except Exception:
        continue
  w = '/tmp/wt%d_%s' % (n, pid)
  txt = f'''You are helping to evaluate a verification effort for google/vizier (a Python black-box optimization service). Your job: produce ONE realistic source change ("seeded bug") to google/vizier that BREAKS the semantic property below while the code still imports and the existing test suite still passes.

PROPERTY
{prop_txt}

YOUR WORKSPACE: the git worktree {w} (a checkout of google/vizier). Work ONLY there; never touch /repo or /verif, and do not read /verif.
Environment notes: read /tmp/vzshim/README.txt (how to import vizier's service code in this sandbox: it needs a small proto shim) and /tmp/vzshim/TESTS.txt (the exact existing-test command; replace the worktree path by yours). Use /venv/bin/python. No network.

REQUIREMENTS
1. The change must be a plausible mistake or regression a developer could make (an off-by-one, a wrong condition, a dropped guard, a stale copy, wrong lock, wrong order of two writes, a changed default, a "harmless" refactoring or optimisation, a cache, a wrong variable of two similar ones, an early return, a swallowed exception, a comparison with the wrong operand, a mutable default argument, an in-place numpy operation on an input, a dtype change, ...), touching library code only (no test files, no .proto changes), at most ~15 changed lines, in one or two places.
2. It must need something SPECIFIC to manifest - a particular multi-step sequence of operations, an unusual input (tie, empty, boundary, special character, large count), a particular interleaving or crash/fault point, or two cooperating sites that each look fine alone. NOT something ordinary use or a smoke test exposes at once.
3. {n - 1} earlier rounds already produced the changes listed below. Yours must be DIFFERENT IN KIND from all of them. Read the property statement clause by clause AND its "Quantified over" line, list for yourself which clauses and which quantified dimensions (kinds of input, configurations, call sequences, deployments, backends) none of the earlier changes exercises, and break one of those - through a code path and with a trigger none of them uses. Prefer a file none of them changed when the property allows it; helper modules the property's code path goes through (converters, utilities, base classes) count too.
{chr(10).join(earlier)}
4. The existing tests (TESTS.txt command) must still pass with the change.
5. Write a demonstration {w}/demo_{pid}.py (a small standalone program, using the shim if it needs the service) that exits 0 on the ORIGINAL code and exits non-zero (with a clear message) WITH your change. Verify both yourself with a patch file: `git diff > {w}.patch; git checkout -- .; <run demo>; git apply {w}.patch; <run demo>`. NEVER use `git stash` (the stash is shared between worktrees and other people are working in sibling worktrees).
6. Leave the worktree with your change applied (uncommitted), and write {w}/seed_meta.json with keys: property, files_changed, what_the_change_does, what_it_needs_to_manifest, demo_command, tests_command_run_and_result.

7. SIDE REMARKS (valuable): if, while reading or experimenting, you notice behaviour of the UNCHANGED code that itself contradicts the property (a concrete input, what you observed, what the property demands), report it at the end under a heading 'UNCHANGED-TREE REMARKS', separately from your seeded change. Do not go hunting for long; just do not lose what you stumble on.

Report back: the diff (git diff), the demo command, a two-line description, and the UNCHANGED-TREE REMARKS (or 'none'). Be efficient: read only the code you need (the property mentions what it is about; grep for it).'''
  open('/tmp/vzshim/prompt%d_%s.txt' % (n, pid), 'w').write(txt)
  if not os.path.isdir(w):
    subprocess.run(['git', '-C', '/repo', 'worktree', 'add', '-f', '--detach', w, 'HEAD'], check=True, capture_output=True)
print('prompts and worktrees for round', n)
