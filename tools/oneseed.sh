#!/bin/sh
# tools/oneseed.sh <seed-dir-name> [prop] [tier]: apply one stored seed to /repo, run the property's check, undo, regenerate Gen files
cd /verif
export VERIF_EVIDENCE_DIR=/verif/.scratch/evidence_seeded   # evidence/ is for runs on the unchanged tree
name="$1"; prop="${2:-$(echo "$name" | cut -c1-3)}"; tier="${3:-quick}"
git -C /repo apply "/verif/seeded/$name/patch.diff" || exit 2
./check "$prop" "$tier" > "/tmp/oneseed_$name.log" 2>&1; rc=$?
git -C /repo checkout -- .; git -C /repo clean -fdq -e google_vizier.egg-info -- vizier   # files a seeded change may have created (e.g. a database file in the source tree)
PYTHONPATH=/verif /venv/bin/python -m harness.gen_all >/dev/null 2>&1
grep -m3 "VIOLATION" "/tmp/oneseed_$name.log" | cut -c1-300
tail -1 "/tmp/oneseed_$name.log" | cut -c1-200
echo "$name -> exit $rc"
