#!/bin/sh
# usage: tools/goal.sh coq/Proofs/X.v LINE  -> shows goals after LINE lines
f="$1"; n="$2"; d=$(dirname "$f"); b=$(basename "$f" .v)
tmp="$d/Dbg_$b.v"
head -n "$n" "$f" > "$tmp"; printf '\nShow.\nAbort All.\n' >> "$tmp"
cd /verif/coq && timeout 120 coqc -Q . VZ "$tmp" 2>&1 | tail -${3:-40}
rm -f "$d/Dbg_$b".* "$d/.Dbg_$b.aux"
