#!/bin/sh
# tools/seedsweep.sh <VERIF_SEED> <glob> [repo]: apply each stored seed matching the glob to the given repo copy (default /repo), run the
# property's quick check with the given VERIF_SEED, undo; prints one line per seed.  Does not touch seeded/*/meta.json.
cd "$(dirname "$0")/.." || exit 2
export VERIF_EVIDENCE_DIR="$PWD/.scratch/evidence_seeded"   # evidence/ is for runs on the unchanged tree
seed="$1"; pat="$2"; repo="${3:-/repo}"
for d in seeded/$pat/; do
  name=$(basename "$d"); prop=$(echo "$name" | cut -c1-3); [ -f "$d/check_with" ] && prop=$(cat "$d/check_with")
  [ -f "$d/patch.diff" ] || continue
  if ! git -C "$repo" apply --check "$PWD/$d/patch.diff" 2>/dev/null; then echo "$name: patch does not apply"; continue; fi
  git -C "$repo" apply "$PWD/$d/patch.diff"
  VERIF_REPO="$repo" VERIF_SEED="$seed" ./check "$prop" quick > "/tmp/sweep_${seed}_$name.log" 2>&1; rc=$?
  git -C "$repo" checkout -- .
  (PYTHONPATH="$PWD" VERIF_REPO="$repo" /venv/bin/python -m harness.gen_all >/dev/null 2>&1)
  echo "seed=$seed $name -> exit $rc $(grep -c 'no-failing-input-found' /tmp/sweep_${seed}_$name.log) nofail"
done
