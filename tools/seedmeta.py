"""Writes seeded/<id>/meta.json from the agent's description and the outcome of the check run."""
import json, os, re, sys
name, prop, rc, secs, log = sys.argv[1:6]
d = os.path.join('/verif/seeded', name)
agent = {}
p = os.path.join(d, 'agent_meta.json')
if os.path.exists(p):
  try:
    agent = json.load(open(p))
  except Exception:
    agent = {'raw': open(p).read()[:2000]}
text = open(log, errors='replace').read()
viol = []
lines = text.splitlines()
for i, l in enumerate(lines):
  if l.startswith('VIOLATION'):
    nxt = lines[i + 1].strip() if i + 1 < len(lines) else ''
    viol.append((l.split(' replay=')[0] + (' no-failing-input-found' if 'no-failing-input-found' in l else '')) + ' :: ' + nxt[:200])
meta = {
    'seed': name,
    'property': prop,
    'origin': agent.get('origin', 'fresh sub-agent working in its own scratch worktree, given only the property text'),
    'files_changed': agent.get('files_changed'),
    'what_the_change_does': agent.get('what_the_change_does'),
    'what_it_needs_to_manifest': agent.get('what_it_needs_to_manifest'),
    'what_i_ran': 'git -C /repo apply seeded/%s/patch.diff; ./check %s quick; git -C /repo checkout -- .' % (name, prop),
    'check_exit_code': int(rc),
    'seconds': int(secs),
    'detected': int(rc) == 1 and bool(viol),
    'with_concrete_failing_input': any('no-failing-input-found' not in v for v in viol),
    'violation_lines': viol[:6],
}
json.dump(meta, open(os.path.join(d, 'meta.json'), 'w'), indent=1)
