#!/usr/bin/env python3
"""Regenerates /verif/MANIFEST.json from the table below (kept valid at all times)."""
import json, os
HERE = os.path.dirname(os.path.dirname(os.path.abspath(__file__)))
BASE_TB = ('Coq 8.16.1 kernel incl. vm_compute (no native_compute); hand-written Gallina model under coq/Model tied to /repo by '
           'the correspondence check (real code and model evaluated on the same generated inputs inside coqc) and, where '
           'named, by the Python-ast translator writing coq/Gen; proto shim and equinox stand-in (harness/shim); '
           'generators and Gallina printers of the harness.')
CLAIMED = {
 'C10': dict(
   text=('Theorems (all closed under the global context): one merge and any sequence of merges are last-writer-wins per (ns,key) '
         'with all other entries untouched, stored form sorted and key-unique (C10_merge_lww, C10_lww_history, '
         'C10_merge_canonical, C10_history_canonical, C10_trial_merge_lww); namespace encode/decode round trip and '
         'injectivity proved for every namespace with no component ending in a backslash (C10_ns_*_partial) and the full '
         'statement REFUTED with a kernel-checked witness (C10_ns_roundtrip_refuted, C10_ns_injective_refuted) = known finding '
         'C10-ns-trailing-backslash. Tie: correspondence of Namespace.encode/decode and merge_study/trial_metadata with the model.'),
   note=BASE_TB + ' Packed-proto payloads are opaque (tag + bytes).',
   technique='Rocq proof (induction over update sequences; parser invariant) + vm_compute correspondence',
   design='5/C10'),
}
CLAIMED['C11'] = dict(
   text=('Theorems (closed under the global context): the naive in-place revision loop, naive/jax is_pareto_optimal_against (both '
         'strictness modes), the ListOptimalTrials dominance matrix, nsga2/jax pareto_rank (= number of dominators, 0 iff optimal) and '
         'sharded is_frontier (for every cut list descending from len(ys) to 0) all equal the definition "not dominated by any '
         'point" for ALL finite point lists of NaN-free vectors of equal length incl. duplicates, ties and +-inf (C11_naive_correct, '
         'C11_naive_against_*, C11_service_matrix_correct, C11_rank_*, C11_jax_against_correct, C11_frontier_correct). REFUTED with '
         'kernel-checked witnesses: divide-and-conquer is_pareto_optimal on first-coordinate ties (C11_fast_refuted), is_frontier with '
         'one shard, NaN objectives reported by the service matrix. FastPareto routines are modelled executable (fuel) and tied by '
         'correspondence only: no correctness theorem for them yet (partial).'),
   note=BASE_TB + ' numpy argsort modelled as stable sort (correspondence for the defective fast is_pareto_optimal restricted to tie-free inputs); np.linspace cut points taken from numpy.',
   technique='Rocq proof (loop invariant + maximal-dominator argument; induction over shards) + vm_compute correspondence',
   design='5/C11')
ALL = ['C%02d' % i for i in range(1, 21)]
m = {
 'version': 1,
 'setup_cmd': './setup.sh',
 'hooks': {'guard': 'GOOGLE_VIZIER_VERIF', 'enable': 'none needed: observation points are reached by wrapping live objects from the harness; checks export GOOGLE_VIZIER_VERIF=1',
           'baseline_off_cmd': 'cd /repo && /venv/bin/python -m pytest -ra -q -p no:cacheprovider --timeout=900 --continue-on-collection-errors',
           'source_commits': [], 'add_only': True},
 'engines': [{'name': 'rocq-model', 'path': 'coq/', 'serves_properties': sorted(CLAIMED), 'kind_free_text': 'Coq 8.16.1 development: Model/ (executable), Proofs/, Properties/ (statements + Print Assumptions), Gen/ (translator output)'},
             {'name': 'harness', 'path': 'harness/', 'serves_properties': sorted(CLAIMED), 'kind_free_text': 'Python drivers: generators, real-code runners, cases-file emitters, monitors'}],
 'checks': [],
 'not_applicable': [],
 'notes': 'See DESIGN.md. Known findings in known_findings.json.',
}
for pid in ALL:
  if pid in CLAIMED:
    c = CLAIMED[pid]
    m['checks'].append({
      'property_id': pid, 'quick_cmd': './check %s quick' % pid, 'thorough_cmd': './check %s thorough' % pid,
      'evidence_file': '/verif/evidence/%s.json' % pid, 'replay_cmd_template': './check %s --replay {path}' % pid,
      'engine': 'rocq-model',
      'level_claimed': {'category': 'proof', 'text': c['text'], 'design_ref': c['design']},
      'level_note': c['note'], 'technique': c['technique']})
  else:
    m['not_applicable'].append({'property_id': pid, 'reason': 'not claimed yet: the Rocq model and check for this property have not been built in this round (see DESIGN.md section 5 for the plan)'})
json.dump(m, open(os.path.join(HERE, 'MANIFEST.json'), 'w'), indent=1)
print('MANIFEST.json written: %d checks, %d not claimed' % (len(m['checks']), len(m['not_applicable'])))
