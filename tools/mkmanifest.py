#!/usr/bin/env python3
"""Regenerates /verif/MANIFEST.json from the table below (kept valid at all times)."""
import json, os
HERE = os.path.dirname(os.path.dirname(os.path.abspath(__file__)))
BASE_TB = ('Coq 8.16.1 kernel incl. vm_compute (no native_compute); hand-written Gallina model under coq/Model tied to /repo by '
           'the correspondence check (real code and model evaluated on the same generated inputs inside coqc) and, where '
           'named, by the Python-ast translator writing coq/Gen; proto shim and equinox stand-in (harness/shim); '
           'generators and Gallina printers of the harness.')
CLAIMED = {
 'C10': dict(
   text=('Theorems (all closed under the global context): one merge and any sequence of merges are last-writer-wins per (ns,key) '
         'with all other entries untouched, stored form sorted and key-unique (C10_merge_lww, C10_lww_history, '
         'C10_merge_canonical, C10_history_canonical, C10_trial_merge_lww); namespace encode/decode round trip and '
         'injectivity proved for every namespace with no component ending in a backslash (C10_ns_*_partial) and the full '
         'statement REFUTED with a kernel-checked witness (C10_ns_roundtrip_refuted, C10_ns_injective_refuted) = known finding '
         'C10-ns-trailing-backslash. AT THE RPC (service model): an accepted UpdateMetadata stores exactly the merge of the study\'s metadata '
         'with the update and, for every trial it names, the merge of that trial\'s metadata with its updates, touching nothing else; a call '
         'that names a missing trial answers with error details and leaves the stored state syntactically unchanged '
         '(C10_update_metadata_rpc); after any sequence of such calls each (namespace, key) of the study holds the value of the last '
         'ACCEPTED write (C10_update_metadata_history). ENCODE / PARSE ARE THE SOURCE: coq/Gen/NamespaceSrc.v is regenerated from common.py at every run (escape table and join of '
         'Namespace.encode; prologue and the four loop branches of _parse) and its meaning is proved equal to the model functions '
         '(C10_source_parse_is_the_model, C10_source_encode_is_the_model). Tie: correspondence of Namespace.encode/decode and merge_study/trial_metadata with '
         'the model; metadata_util.assign / get / get_proto and key-value-list conversions with string, Message and packed Any values; '
         'UpdateMetadata and algorithm deltas end to end through the service on both datastores.'),
   note=BASE_TB + ' Packed-proto payloads are opaque (tag + bytes).',
   technique='Rocq proof (induction over update sequences; parser invariant; encode / parse regenerated from the source by a translator) + vm_compute correspondence',
   design='5/C10'),
}
CLAIMED['C11'] = dict(
   text=('Theorems (closed under the global context): the naive in-place revision loop, naive/jax is_pareto_optimal_against (both '
         'strictness modes), the ListOptimalTrials dominance matrix, nsga2/jax pareto_rank (= number of dominators, 0 iff optimal) and '
         'sharded is_frontier (for every cut list descending from len(ys) to 0) all equal the definition "not dominated by any '
         'point" for ALL finite point lists of NaN-free vectors of equal length incl. duplicates, ties and +-inf (C11_naive_correct, '
         'C11_naive_against_*, C11_service_matrix_correct, C11_rank_*, C11_jax_against_correct, C11_frontier_correct). REFUTED with '
         'kernel-checked witnesses: divide-and-conquer is_pareto_optimal on first-coordinate ties (C11_fast_refuted), is_frontier with '
         'one shard, NaN objectives reported by the service matrix. THE DOMINANCE TESTS ARE THE SOURCE: coq/Gen/Dominance.v is regenerated at every run (entry, reduction axis and negation of the '
         'ListOptimalTrials matrix; row test and sum of nsga2._pareto_rank; xla_pareto._is_dominated in both modes with the vmaps and reductions of '
         '_is_pareto_optimal_against / pareto_rank) and proved to denote the model functions (C11_source_*). FastPareto routines are modelled executable (fuel) and tied by '
         'correspondence only: no correctness theorem for them yet (partial).'),
   note=BASE_TB + ' numpy argsort modelled as stable sort (correspondence for the defective fast is_pareto_optimal restricted to tie-free inputs); np.linspace cut points taken from numpy.',
   technique='Rocq proof (loop invariant + maximal-dominator argument; induction over shards; dominance tests regenerated from the source by a translator) + vm_compute correspondence',
   design='5/C11')
SVC_NOTE = BASE_TB + (' The service model (Model/Service.v: 20 datastore primitives, 17 handler programs in a free monad, sequential interpreter) '
  'is a hand transcription of vizier_service.py / ram_datastore.py / sql_datastore.py; it is tied on every run by replaying generated RPC '
  'sequences on the real VizierServicer (RAM and SQLite) and comparing responses, the trace of datastore calls and the final stored state '
  'inside coqc. Pythia is a scripted oracle; timestamps, messages and resource-name parsing are not modelled.')
CLAIMED['C01'] = dict(
   text=('Theorems for every state and argument (closed under the global context): THE FRAME THEOREM - across any RPC (all 17 kinds, any '
         'arguments, any Pythia answer, success or failure) every trial stored before and after the call has evolved by a legal transition '
         '(same id and parameters, state moved along REQUESTED -> ACTIVE -> STOPPING -> SUCCEEDED | INFEASIBLE or stayed, completed trials '
         'keep state, measurements and final measurement; a trial that is not REQUESTED keeps its owner), for every state with unique study keys and trial ids (C01_frame), and these '
         'invariants hold in every reachable state, so the statement holds along every history (C01_frame_along_every_history; proved by a '
         'tracking relation composed over the calls of each handler, with a pool invariant through the assignment loop of SuggestTrials). '
         'Also: a call on a missing study / missing trial, any mutation of a non-active study, and Complete / Measure / Stop / CheckEarlyStop on '
         'a non-active trial end with the documented error class (or the documented no-op) and leave the stored state syntactically unchanged; '
         'Complete / Measure / Stop on an active trial rewrite exactly that trial (C01_*_effect, C01_rewrite_is_local). THE HANDLERS ARE THE SOURCE: coq/Gen/Handlers.v, SuggestSrc.v, EarlyStopSrc.v, OptimalSrc.v are regenerated at every run from vizier_service.py: '
         'the bodies of 14 RPC methods statement by statement in the statement language of Model/HandlerIR.v (svchandlers.py, plus the study guard and '
         '_TRIAL_MUTABLE_STATES), and SuggestTrials, CheckTrialEarlyStoppingState, ListOptimalTrials block by block (svcsuggest.py, svcearlystop.py, '
         'svcoptimal.py: the statements of every block are pinned, compared as parsed code; sequence and lock nesting of the blocks are written down); the program each body denotes is proved to be, node for node (datastore calls with their arguments, '
         'lock operations, replies, error classes), the handler program all theorems are about (C01_source_handlers_are_the_model, closed; '
         'C01_source_handlers_run_like_the_model for whole histories; C01_source_handlers_equal_the_model as an equality, the one theorem of '
         'this file that uses the standard library\'s functional extensionality; C01_source_guards). all 17 kinds are covered (C01_source_every_kind). PARTIAL: that the '
         'datastore primitives are the code, and that the pinned blocks mean what Model/*IR.v says, is decided by the trace-level correspondence + per-step monitor (legal transitions, immutability, '
         'illegal-call table from the docstrings), incl. sequences dense in half-failing datastore writes.'),
   note=SVC_NOTE, technique='Rocq proof (tracking relation + loop invariant over handler programs; symbolic execution; handler programs regenerated from the source by a translator and proved equal to the model) + trace-level correspondence', design='5/C01')
CLAIMED['C02'] = dict(
   text=('Theorems (closed under the global context), for every state, worker, count and Pythia answer. THE FUNCTIONAL THEOREM '
         '(C02_suggest_functional): on a state where the study is active, the worker has no unfinished operation, its operations are '
         'numbered 1..m and trial ids are unique, SuggestTrials ends normally with a finished operation whose trials are all ACTIVE and '
         'owned by the asking worker; unless it carries the error flag it returns exactly min(count, own ACTIVE + queued REQUESTED + '
         'delivered) trials, namely the first `count` of: own ACTIVE trials, then queued REQUESTED trials re-assigned to the worker, then '
         'new trials numbered max+1, max+2, ...; every trial stored before is still stored and unchanged up to metadata unless it was '
         'REQUESTED and has been assigned to the asking worker - no ACTIVE trial changes owner. NO TRIAL IS EVER ASSIGNED TO TWO WORKERS '
         '(C02_owner_never_changes): along every history and for every RPC of any kind, a stored trial that is not REQUESTED keeps its '
         'owner and never becomes REQUESTED again. SURPLUS (C02_surplus_queued_and_ids_fresh): '
         'when own + queued do not cover the request, the stored trials afterwards are the old ones followed by exactly one new trial per '
         'suggestion, those not handed out REQUESTED and unowned, with ids max+1 .. max+|suggestions| in creation order, each larger '
         'than every earlier id (C02_new_ids_above, C02_new_ids_increase). The numbering and unique-id hypotheses are invariants of every '
         'reachable state (C02_ready_on_reachable_states), and so is the order of the stored ids: in every reachable state the trials '
         'are stored in strictly increasing id order, i.e. ids increase with creation order along every history of any RPCs '
         '(C02_ids_increase_with_creation_order). STICKY (C02_sticky, ..._on_reachable_states): a worker holding at least '
         '`count` ACTIVE trials gets exactly its first `count` again and neither trials nor study change; an unfinished operation is '
         'returned unchanged. Proved by characterising the three loops of the handler program (assign / create / remain) and composing '
         'them into one function of the stored trials (sg_spec), whose consequences are list lemmas. PARTIAL: that the handler program '
         'is the code (incl. the order in which each datastore lists trials) is decided by the trace-level correspondence + monitor over '
         'generated histories with over- and under-delivering algorithms and long studies (ids beyond 10, 20) on RAM and SQLite; '
         'client-side polling by the monitor only.'),
   note=SVC_NOTE, technique='Rocq proof (loop characterisation + functional specification of the SuggestTrials program, invariants over reachable states) + trace-level correspondence + monitor', design='5/C02')
CLAIMED['C06'] = dict(
   text=('Theorems (closed under the global context): the failure continuation finish_op always ends the RPC with a DONE operation carrying '
         'the error and stores exactly it (C06_failure_is_reported_and_stored); a worker is answered without reaching the algorithm only from a '
         'stored done=false operation (C06_wedge_needs_unfinished_operation); THE INVARIANT: for every state with unique study / operation '
         'keys, every RPC and every Pythia answer (failure, short / empty / over-delivery, metadata that cannot be stored), an RPC that ends '
         'normally leaves no suggestion operation unfinished, and so does every history of normally ending RPCs from the initial state '
         '(C06_never_wedged, C06_never_wedged_history; proved by showing that every normally ending path of SuggestTrials after the creation '
         'of its operation record runs finish_op - induction through the assign / create / remain loops - and that no other handler writes '
         'an operation). STRONGER, WITHOUT THE "ENDS NORMALLY" HYPOTHESIS (C06_no_unfinished_operation_on_any_history, '
         'C06_suggest_never_fails_on_an_active_study): along EVERY history from the initial state - RPCs of every kind, ending normally or '
         'with an error, every Pythia answer - no suggestion operation is ever left unfinished, and SuggestTrials on an existing active '
         'study always ends normally with a finished operation (the datastore-error branches after the record exists are shown unreachable '
         'from what the datastore returned). EARLY STOPPING (C06_early_stop_operation_never_left_active, ..._quiet_along_every_history, '
         '..._reaches_the_algorithm): no RPC of any kind, whatever the algorithm answers (decisions for this trial, other trials, none; a '
         'failure; metadata that cannot be stored) and HOWEVER IT ENDS, leaves an ACTIVE early-stopping operation behind, along every '
         'history; in such a state a check on a live trial reaches the algorithm again and a failing algorithm\'s error is what the caller '
         'gets. Proving it exposed a genuine defect (metadata naming a missing trial left the operation ACTIVE for ever), repaired by a '
         'fix: commit. PARTIAL: that the handler programs are the code is decided by correspondence + monitor (after every step: no unfinished suggestion operation, no ACTIVE '
         'early-stopping operation, algorithm reached again). Defects found and repaired by fix: commits.'),
   note=SVC_NOTE, technique='Rocq proof (state invariant by structural induction over handler programs) + trace-level correspondence + fault-sequence monitor', design='5/C06')
CLAIMED['C07'] = dict(
   text=('Both backends are tied by trace-level correspondence to ONE model of the DataStore contract, so backend equivalence is equality of '
         'two runs of one function (C07_same_calls_same_observations); theorems C07_operation_numbering_agrees / ..._on_reachable_states (numbering invariant over all histories) cover the place where they '
         'compute differently (len vs max). The same sequences are also replayed on RAM, in-memory SQLite and an SQLite file and compared '
         'pairwise after every step. TRANSLATOR: coq/Gen/RamShapes.v is regenerated from ram_datastore.py at every run (per DataStore method: dict lookups wrapped into '
         'NotFoundError or not, AlreadyExistsError guard, missing-trial test, datastore lock, copies on the way in and out, checks before writes); '
         'C07_ram_source_agrees_with_the_model_primitives re-checks in the kernel that the error class (or success) of every model primitive on a '
         'state where nothing exists / only the study exists / everything addressed exists is what the source\'s structure gives, and that every '
         'method is locked and alias-free. Three real divergences were found and repaired (fix: commits).'),
   note=SVC_NOTE + ' Other SQL engines are not covered.', technique='refinement of both backends to one Rocq model (RAM method structure regenerated from the source by a translator and checked against the model primitives in the kernel) + differential replay', design='5/C07')
CLAIMED['C12'] = dict(
   text=('Theorem C12_exactly_once_partial (closed under the global context): for every history of requests in which trial ids are unique, '
         'bounded by max_trial_id, and max_trial_id never decreases, the completed-trial deliveries of IdDeduplicatingTrialLoader over the whole '
         'life of the study are duplicate-free (at most once), contain every trial completed by request k by request k (at least once), contain '
         'only completed trials, and each update carries exactly the trials ACTIVE at that moment; restarts (dump->load) keep the state; a fresh or '
         'state-less policy gets everything (C12_fresh_policy_gets_all, C12_lost_state_gets_all). The unguarded statement is REFUTED by a '
         'kernel-checked history (C12_full_refuted) = known finding C12-max-trial-id-decreases. THE LOADER IS THE SOURCE: coq/Gen/TrialCacheSrc.v is regenerated from trial_caches.py at every run (guard, set expressions, status '
         'filter of get_newly_completed_trials; dump / load / clear) and its meaning is proved equal to the model function the theorems are about '
         '(C12_source_loader_is_the_model, C12_source_restart_keeps_the_cache); coq/Gen/PolicySrc.v likewise from designer_policy.py: what DesignerPolicy and the state-persisting policies hand to Designer.update, step by step, is what the model says, the state is dumped after the update, a DecodeError starts over with a cleared cache (C12_source_stateful_policy_is_the_model, C12_source_fresh_policy_is_the_model, C12_source_state_is_dumped_after_the_update). Tie: the real loader, the three policy wrappers over '
         'InRamPolicySupporter and the policies hosted in the real service are compared with the model on generated histories.'),
   note=BASE_TB + ' The recording designer and the world generator of harness/props/c12.py.',
   technique='Rocq proof (invariant over request histories, pigeonhole on the id set; loader regenerated from the source by a translator) + vm_compute correspondence', design='5/C12')
CLAIMED['C05'] = dict(
   text=('TRANSLATOR + theorems: coq/Gen/SqlShapes.v is regenerated from sql_datastore.py on every run (per method the skeleton of reads, '
         'writes, _write_or_rollback, commit, rollback, raise, branches, loops, try/except); C05_all_methods_have_atomic_shape re-checks all 20 '
         'skeletons in the kernel; C05_shape_check_sound proves the abstract check sound for the trace semantics (unbounded loops, caught '
         'IntegrityErrors); C05_primitive_crash_atomic: for a checked method, after ANY prefix of its SQL activity the durable content is that '
         'before or that after the call; C05_acknowledged_is_durable; C05_single_resource_rpc_one_mutation: the nine single-resource RPCs '
         'change the store through at most one primitive in every state (hence all-or-nothing). CRASH ANYWHERE '
         '(C05_crash_anywhere_keeps_lifecycle): along every history, a crash after any number of datastore primitives of any next RPC '
         'leaves a state in which every stored trial has evolved by a legal transition and study keys / operation keys / trial ids are '
         'unique (SuggestTrials followed prefix by prefix through its loops). All closed under the global context. '
         'Crash harness: child processes killed before every k-th SQL statement/commit of every RPC kind after generated prefixes; a fresh '
         'server reopens the SQLite file: recovered state must be before/after (single-resource), a prefix of the RPC in the model, satisfy the '
         'lifecycle invariants, hold no orphans of deleted studies, and clients continue. Known finding: a crash inside SuggestTrials leaves that '
         "client's operation unfinished (C05-crash-inside-suggest-leaves-operation)."),
   note=SVC_NOTE + " Trusted: SQLite's atomic commit, SQLAlchemy events as crash points, os._exit as the crash; torn pages / fsync lies are below the model.",
   technique='Rocq proof (verified abstract interpreter over translator-generated transaction skeletons) + crash-point enumeration', design='5/C05')
CLAIMED['C04'] = dict(
   text=('Theorems for ANY number of concurrent calls and ANY schedule (closed under the global context): trial ids stay unique per study '
         '(C04_unique_ids_all_interleavings: every datastore primitive preserves it); every handler obeys the lock discipline (operation '
         'lock first, study/owner lock innermost, LIFO release, returns holding nothing: C04_lock_discipline) and therefore no reachable '
         'configuration is deadlocked (C04_no_deadlock); under every schedule no lock is ever held by two threads (C04_mutual_exclusion) and '
         'in every handler every datastore write is made under the lock of what it writes (C04_writes_are_made_under_their_lock). '
         'NO LOST UPDATE (C04_no_lost_update): while a thread is inside a critical section, under every schedule of the other threads the '
         'part of the datastore that its lock protects is exactly what that thread last saw or wrote - nothing another thread does in '
         'between changes it. '
         'TRANSLATOR: coq/Gen/ServiceLocks.v is regenerated from vizier_service.py at every run (per RPC method: datastore call sites in '
         'source order with the lexically enclosing servicer locks; nesting of the with-statements); re-checked in the kernel on that '
         'table: writes under their lock, every read that feeds a rewrite under the same lock (get_trial / update_trial, max_trial_id '
         'directly before create_trial, ...), operation lock never taken inside another lock, and in the methods that take the operation lock the study handed to the algorithm is loaded and the algorithm\'s metadata written back under that lock (C04_source_*, C04_source_algorithm_state_under_operation_lock). ISOLATION (C04_different_studies_any_schedule): two calls of any kind (except study '
         'creation / deletion / listing) that address different studies end with the same replies, owners and stored data under EVERY pair '
         'of complete schedules, hence every interleaving equals both serial orders (every datastore primitive reads and writes only the '
         'node of its study; each thread is simulated by the same thread running alone). For calls on the SAME study the full '
         'serialisability statement is REFUTED on the model by a kernel-evaluated '
         'schedule (C04_full_refuted: the study guard is evaluated before the lock) = known finding C04-guard-outside-lock; a general '
         'serialisability theorem for the remaining same-study pairs is NOT proved: it is decided by exhaustive-per-pair / random schedule '
         'exploration of real threads under a deterministic scheduler, compared with all serial orders of the real implementation (up to '
         'renumbering of new trials) and with the model replayed on the same schedule, plus a focused stage: every pair of trial-level calls '
         'on the same trial under every schedule of the form "A takes j steps, B runs to completion, A finishes", and the same schedules for overlapping suggestion / early-stopping calls with an algorithm that keeps a counter in the study metadata (lost update of persisted algorithm state). Two families of real races were found and repaired '
         '(fix: commits).'),
   note=SVC_NOTE + ' Scheduling points are datastore primitive calls and servicer-lock acquisitions; interleavings inside a datastore primitive, inside SQLite/gRPC and the GIL are not explored; at most 3 threads in the exploration (the theorems are unbounded).',
   technique='Rocq proof (invariants over all interleavings; lock-order argument; simulation by solo runs) + source translator for lock coverage + deterministic-scheduler exploration against serial orders', design='5/C04')
CLAIMED['C08'] = dict(
   text=('All three deployments run the same servicer code (one model); they differ in how a server-side error reaches the client. '
         'TRANSLATOR: coq/Gen/StatusMap.v is regenerated from grpc_util.handle_exception (exception -> status table, termination of the RPC '
         'for local and real contexts) and vizier_client.get_suggestions (status mapped to []). Theorems: handle_exception terminates the RPC in '
         'both deployments; errors routed through it carry the same status everywhere; a finished study yields the promised empty suggestion '
         'list in every deployment; a missing trial yields ResourceNotFoundError locally. The full agreement statement is REFUTED '
         '(C08_errors_agree_refuted, C08_missing_trial_remote_refuted) = known finding C08-escaping-exception-unknown. Tie/search: client '
         'programs over clients.Study/Trial replayed against the in-process servicer, a loopback gRPC server and a split-Pythia server on both '
         'datastores; values and error classes compared pairwise, observed error pairs checked against the transport model in coqc.'),
   note=BASE_TB + ' Loopback gRPC; transport faults, TLS and message-size limits are not covered. The servicer model itself is tied under C01.',
   technique='Rocq proof over a translator-generated status table + three-deployment differential replay', design='5/C08')
CLAIMED['C09'] = dict(
   text=('Theorems (closed under the global context): ParameterConfig trees of any nesting depth (four kinds, falsy defaults, external '
         'types, single/multiple parent values) satisfy from_proto (to_proto p) = p for every well-formed p (C09_parameter_config_roundtrip, '
         'nested induction); enum tables for scale / external type / study state / trial status round-trip (tables regenerated from the '
         'source by the translator); Measurement: metrics and steps exact, elapsed seconds within one nanosecond in exact arithmetic. '
         'REFUTED: UNIFORM_DISCRETE scale is not transmitted (known finding). TRIAL (C09_trial_roundtrip): a vz.Trial whose description / '
         'worker are not the empty string and whose flags are consistent comes back from to_proto / from_proto as an equal object (id, '
         'description, worker, requested flag, infeasibility reason incl. the empty one, status, parameters by value, measurements, '
         'creation / completion time); the unguarded statement is REFUTED (C09_trial_roundtrip_full_refuted: description \'\' comes back '
         'as None = known finding C09-empty-string-becomes-none); the model of TrialConverter.to_proto is compared with the real converter '
         'on generated trials (exact on dyadic times). TrialSuggestion, MetadataDelta, Suggest/EarlyStop request+decision and StudyConfig '
         'converters, and the metadata of a Trial, are NOT modelled here: they are decided by round-trip monitors on the real converters '
         '(partial). Four real defects found and repaired (fix: commits); known findings: metric order in StudyConfig, UNIFORM_DISCRETE, empty strings.'),
   note=BASE_TB + ' Exact rational arithmetic stands for IEEE doubles (bit-exact agreement is checked on dyadic inputs only); MetricInformation min/max values, fractional step counts and empty descriptions are not round-tripped by the code and are outside the generator.',
   technique='Rocq proof (nested structural induction; translator-generated enum tables) + vm_compute correspondence + round-trip monitors', design='5/C09')
CLAIMED['C16'] = dict(
   text=('Theorems (closed under the global context): ParameterConfig.contains is True exactly for values inside the domain '
         '(C16_parameter_contains_iff, for ints, floats incl. nan/+-inf, strings, bools); a flat SearchSpace accepts an assignment iff its '
         'keys are exactly the parameter names and every value is in its domain (C16_space_contains_iff, pigeonhole on key sets); factory '
         'rejects empty names, bounds+feasible, duplicate / mixed / non-finite feasible values, non-finite / reversed / mixed bounds, and '
         'space.add rejects duplicate names (one theorem per class); accepted definitions are normalised (sorted feasible values as a '
         'permutation of the input, ordered finite bounds, inferred type); SequentialParameterBuilder (dfs and bfs) visits exactly the '
         'parameters active under the chosen values for every conditional tree (C16_builder_visits_exactly_active), and it validates the value chosen for EVERY parameter whatever its type: a value outside the domain of any active parameter is refused, an answer lists exactly the active parameters with the values chosen (C16_builder_validates_every_value; stating it exposed a genuine defect - continuous parameters were not validated - repaired by a fix: commit). THE FACTORY IS THE SOURCE: coq/Gen/FactorySrc.v is regenerated from parameter_config.py at every run (ParameterConfig.factory as a decision tree, helper bodies pinned) and proved to denote the model function (C16_source_factory_is_the_model). Tie: factory / contains / '
         'SearchSpace.contains / SequentialParameterBuilder compared with the model on generated definitions, near-miss assignments and '
         'conditional spaces; conditional membership must raise NotImplementedError; Study.add_trial must refuse outside trials. One defect '
         'found and repaired (OverflowError from contains).'),
   note=BASE_TB + ' CUSTOM parameters, default-value validation and float isclose tolerances are not modelled; doubles are exact rationals plus inf/nan.',
   technique='Rocq proof (boolean reflection of membership, sorting/permutation, worklist invariant for the builder; factory regenerated from the source by a translator) + vm_compute correspondence', design='5/C16')
CLAIMED['C17'] = dict(
   text=('Theorems (closed under the global context): casts present booleans as True/False, integer-valued values as ints of equal value, '
         'floats and internal values unchanged; for conditional spaces of any shape, when trial_parameters reports no error the presented '
         'names are exactly the trial\'s names and every value is a cast of the trial\'s value (C17_presented_exactly_trial_parameters), '
         'otherwise the result is an error (C17_unconverted_parameter_is_an_error); name[i] parsing and grouping in numeric index order as a '
         'permutation (C17_indexed_name_parsed, C17_group_in_index_order). REFUTED: a plain parameter x is overwritten when x[0] exists '
         '(known finding). ACTIVE PARAMETERS ONLY: for every conditional forest (any depth, the same name in several subtrees) and every '
         'trial, each presented (name, value) belongs to a node that is active under the declarative activity relation (a root the trial '
         'carries, or a child of an active node whose matching values contain the trial\'s value for it) and is the trial\'s value cast to '
         'that node\'s type (C17_presented_are_active); a trial carrying a parameter that is not an active parameter is an error '
         '(C17_inactive_parameter_is_an_error). Proving this exposed a genuine defect (children of an inactive config were queued: an '
         'inactive grandchild was presented when its parent\'s name also occurs in the active subtree), repaired by a fix: commit. THE LOOP IS THE '
         'SOURCE: coq/Gen/ExternalSrc.v is regenerated from study_config.py at every run (the loop body of _trial_to_external_values statement '
         'by statement, initialisation, condition, the length check) and proved to denote the model function (C17_source_loop_is_the_model). Tie: the '
         'BFS model is compared with StudyConfig.trial_parameters on generated spaces (incl. same names in several subtrees) and an oracle '
         'recomputes activity from the space.'),
   note=BASE_TB + ' Numeric strings cast "for benchmark use" are outside the model; doubles are exact rationals.',
   technique='Rocq proof (invariant of the BFS worklist, stable-sort lemma; the loop regenerated from the source by a translator) + vm_compute correspondence', design='5/C17')
CONV_NOTE = BASE_TB + (' Decoding (DefaultModelInputConverter._to_parameter_value, one-hot un-embedding, label sign) is a hand-written model over exact '
  'rationals with +-inf/nan (Model/Conv.v) tied by correspondence; the scaling formulas and the should_clip defaults / call sites are '
  'regenerated from converters/core.py on every run by harness/translate/scalers.py (fail-closed) into coq/Gen/Scalers.v, and the theorems about '
  'them are over Coq reals (classical real-number axioms of the standard library as reported by Print Assumptions under the C15 theorems: '
  'ClassicalDedekindReals.sig_forall_dec, sig_not_dec, Classical_Prop.classic, FunctionalExtensionality.functional_extensionality_dep; the C03 theorems are over Q and closed). float32/float64 rounding is not modelled: the harness allows the error that rounding the input to the '
  'feature dtype forces through the scaler slope. GP designers (GP_UCB_PE, GAUSSIAN_PROCESS_BANDIT) cannot run here (equinox stand-in) and are '
  'covered only through their shared converter.')
CLAIMED['C03'] = dict(
   text=('Theorems: decoding ANY extended real (incl. +-inf) with clipping on yields a value inside the parameter domain or "missing", for every '
         'well-formed DOUBLE / INTEGER / DISCRETE / CATEGORICAL config, continuified or indexed (C03_decode_in_domain, closed under the global '
         'context); every DefaultModelInputConverter construction site in the converters package leaves clipping on (C03_all_sites_clip, over the '
         'translated site list); without clipping the statement is REFUTED by a kernel-checked witness (C03_noclip_refuted); snapping returns a '
         'closest feasible value; LOG / REVERSE_LOG with a non-positive bound is refused. THE DEFAULT / CENTRE SEED (suggest_default.py; branch '
         'order and value formulas regenerated from the source into Gen/SuggestDefault.v on every run): for every well-formed parameter of '
         'the four types with no declared default the seed exists and lies in the domain (C03_default_seed_in_domain, '
         'C03_default_formulas: index < length, lo <= midpoint <= hi); a declared default is handed out exactly when it lies in the '
         'domain and the seeding is refused otherwise (C03_declared_default, C03_default_never_outside; stating it exposed a genuine '
         'defect - an out-of-range default of a DOUBLE parameter was suggested - repaired by a fix: commit); the wrapper seeds only an '
         'empty study and keeps the requested count (C03_seed_wrapper). PARTIAL: the algorithms themselves (random, '
         'quasi-random, grid, eagle, NSGA-II, CMA-ES, BOCS, Harmonica) are not modelled; every suggestion they make on generated '
         'spaces x histories is checked by an independent membership oracle, and refusals must be exceptions. Defects found and repaired '
         '(LOG scale with low bound 0; +-inf decoded as "missing"; unvalidated DOUBLE default).'),
   note=CONV_NOTE, technique='Rocq proof (case analysis on the decode pipeline, argmin lemma) + translator + vm_compute correspondence + membership monitor', design='5/C03')
CLAIMED['C15'] = dict(
   text=('Theorems: index decode returns the feasible value at that index; one-hot blocks have exactly one 1 and argmax recovers the index; '
         'decode of any extended real lands in the domain (shared with C03); label sign flip is an involution under either convention (all closed '
         'under the global context); for the scaling formulas as translated from today\'s source, over the reals and for all 0 < lo < hi: range '
         '[0,1], endpoints 0 and 1, strictly increasing, unscale(scale x) = x for LINEAR, LOG and REVERSE_LOG (C15_*_scale; depend on the '
         'standard library\'s classical real axioms). PARTIAL: float rounding, DictOf2DArrays plumbing, padding and the composition '
         'encode->scale->embed->unembed->unscale->decode are decided by round-trip runs of the real converters over generated spaces x options '
         'x points (exact for integer / discrete / categorical, conditioning-aware tolerance for doubles), not by one end-to-end theorem. '
         'ProblemAndTrialsScaler and safety-metric warping are not covered.'),
   note=CONV_NOTE, technique='Rocq proof (real analysis with ln/exp monotonicity; list lemmas for one-hot) + translator + vm_compute correspondence + round-trip monitor', design='5/C15')
CLAIMED['C13'] = dict(
   text=('Theorems (all closed under the global context): the generic restart theorem - if dump -> fresh instance -> load yields a state related '
         'by a step-preserved, output-determining relation, then restarts inserted before ANY subset of steps of ANY history change no output '
         '(C13_restart_indistinguishable); str(int)/int(str) round trip for every integer and for "None or int" (via the standard library\'s '
         'decimal conversion lemmas); grid search: load(dump s) = s, the mixed-radix index->point map enumerates every grid point exactly once '
         'in every period (C13_grid_every_point_once_per_period) and with arbitrary batch sizes and restarts the suggestions are the grid points '
         'in index order (C13_grid_batches_and_restarts); quasi-random: exact restart for any position-determined sequence; eagle: the firefly '
         'pool returns in the same dict order for the json.dumps options found in the source today, REFUTED for sort_keys; evolutionary '
         'template and CMA-ES: exact restart of (population, counter) / (optimiser state, queue), and the dumps WITHOUT counter / queue (the '
         'pinned code) REFUTED with kernel-checked histories = two defects repaired by fix: commits. C13_state_is_dumped: over lists regenerated '
         'from the designers on every run, every attribute changed by suggest()/update() is read by dump() and set by load(), and load() reads '
         'exactly the keys dump() writes. PARTIAL: the designers\' suggestion logic, numpy/scipy RNG state restore and the JSON text layer are '
         'not modelled; they are decided by differential runs (live instance vs restart before every / one / random steps) at designer, policy '
         '(real study metadata) and service (SQLite file, new servicer per restart) level.'),
   note=BASE_TB + ' harness/translate/serial.py (Python-ast, fail-closed) regenerates coq/Gen/Serial.v; its list of members that are mutated through method calls (eagle pool/rng/initial designer, CMA queue/optimiser) is hand-written. Halton / numpy Generator / random.Random are taken as deterministic functions of seed and position.',
   technique='Rocq proof (simulation argument over histories with restarts; mixed-radix bijection; decimal round trip) + translator + vm_compute correspondence + differential restart monitor', design='5/C13')
CLAIMED['C14'] = dict(
   text=('Theorems (closed under the global context): over the table of random-stream constructions regenerated from the ten designer / sampler '
         'classes on every run (argument data-flow: seed / seed-else-clock / seed-else-global / derived / dump / kwargs / entropy / clock / '
         'global / stale), every stream built by a constructor is seeded from the seed or rng argument, every stream built by load() from the '
         'dump, no method reads the clock or a global generator except for timing strings, and the seed reaches a stream of every class '
         '(C14_every_stream_is_seeded); hence for ANY designer whose behaviour depends on the ambient (clock, global generators, OS entropy, '
         'stale attributes) only through its stream seeds, two runs with the same seed and history agree for all ambients '
         '(C14_same_seed_same_run), different seeds give different stream seeds (C14_seed_is_used), and the restore path is reproducible for '
         'every class whose load() rebuilds all streams (C14_restored_same_seed_same_run); the unacceptable sources and the restore path of '
         'NSGA-II (streams neither dumped nor re-seeded) are REFUTED with witnesses = known finding C14-nsga2-restore-unseeded. PARTIAL: the '
         'premise "behaviour depends on the ambient only through the stream seeds" and the determinism of numpy / scipy / jax generators are '
         'not proved; they are decided by differential runs (perturbed global generators and clock, another study first, fresh process with '
         'another PYTHONHASHSEED) of designers, both designer policies and seeded benchmark runs. GP_UCB_PE and GAUSSIAN_PROCESS_BANDIT '
         'cannot execute in this sandbox: static table only.'),
   note=BASE_TB + ' harness/translate/rngsites.py (Python-ast data-flow, fail-closed) regenerates coq/Gen/RngSites.v; that CMA-ES load_state restores the PRNG key is hand-asserted there and checked by the differential runs.',
   technique='Rocq proof (case analysis over stream sources, list induction) + translator + vm_compute correspondence of the table with observed reproducibility + differential two-run monitor', design='5/C14')
CLAIMED['C18'] = dict(
   text=('Theorems: InfeasibleWarperComponent exactly (same length, feasible entries keep order and ties, infeasible entries strictly below '
         'every feasible one, unwarp inverts warp; closed under the global context); HalfRankComponent: every quantile handed to the normal '
         'quantile function lies in (0, 1/2) and grows strictly with the label, the variance estimate is positive whenever a label lies below '
         'the median, hence for ANY strictly increasing quantile function negative below 1/2 and ANY positive square root, distinct labels stay '
         'distinct and in order, ties stay ties, labels at or above the median are untouched and the others stay below it, missing stays '
         'missing (C18_halfrank_keeps_ranking, closed); LogWarperComponent, for the formulas translated from the source on every run, offset > 1 '
         'and min < max: strictly increasing, range [-1/2, 1/2], unwarp(warp y) = y (over Coq reals: classical real axioms); ZScore / Normalize '
         'are affine with positive slope. C18_source_as_modelled ties the half-rank / infeasible statements, the std-estimate guards and the two '
         'pipelines to the text of output_warpers.py. PARTIAL: float64 / float32 rounding and overflow, DetectOutliers, TransformToGaussian and the '
         'end-to-end composition are decided by the monitor on generated label arrays (ties at the top, outliers, 18 orders of magnitude, 1e160, '
         'NaN / -inf), not by a theorem. Seven defects found and repaired by fix: commits.'),
   note=BASE_TB + ' harness/translate/warpers.py regenerates coq/Gen/Warpers.v (log-warper formulas translated expression by expression; half-rank and infeasible statements compared textually). scipy.stats.norm.ppf and np.sqrt are parameters of the half-rank theorem. Distinct labels closer than 1e-7 of the range may merge in floating point; the inverse is not checked above 1e100.',
   technique='Rocq proof (order theory over Q with setoid equality; real analysis for the log warper) + translator + vm_compute correspondence with tolerance + ranking monitor', design='5/C18')
CLAIMED['C19'] = dict(
   text=('Theorems (all closed under the global context), for ANY score function, ANY strategy output and ANY number of steps and batch '
         'sizes: exactly `count` candidates come back; each carries the score of exactly the returned (masked) features or is an untouched '
         'all-zero filler with the lowest reward; the padded columns of every returned row are zero (C19_count_scores_and_padding); the kept '
         'rewards are the `count` best of everything scored so far (C19_best_of_everything_evaluated: truncating the kept list loses nothing), '
         'the first one is the maximum, and every returned candidate was proposed by the strategy (C19_candidates_were_evaluated). '
         'C19_source_as_modelled ties the model to the data flow of today\'s one-step function (masked features are what is scored, fed back '
         'and kept; NaN rewards become -inf; zero / -inf initial results; argpartition top-k; eagle projection clips to [0,1]). REFUTED: "never '
         'worse than the best prior point" - prior points are not candidates (known finding C19-prior-points-are-not-candidates). PARTIAL: '
         'the strategies themselves (eagle mutation / perturbation, categorical sampling), determinism of jax PRNG and the equivalence of '
         'fori_loop with the observed python loop are decided by the monitor (in-bounds, valid categories, re-scoring, same seed twice, '
         'fori vs python loop), not by a theorem. Two defects found and repaired by fix: commits.'),
   note=BASE_TB + ' harness/translate/optloop.py (Python-ast data-flow, fail-closed) regenerates coq/Gen/OptLoop.v. Rewards enter the model through their order only (dense ranks; NaN / -inf lowest); argpartition\'s unspecified order and tie-breaking are abstracted by comparing multisets of rewards.',
   technique='Rocq proof (insertion-sort / truncation commutation lemma, induction over steps) + translator + vm_compute correspondence on rank-encoded evaluation logs + re-scoring monitor', design='5/C19')
CLAIMED['C20'] = dict(
   text=('Theorems (all closed under the global context), for an experimenter modelled as an ARBITRARY function from points to metric values: '
         'with the goal table obtained by interpreting the if / elif chain of SignFlipExperimenter.problem_statement on every run, sign flipping is '
         'an involution on values and goals at every point of every base experimenter, one flip negates every objective and changes every goal '
         '(C20_flip_is_an_involution, C20_flip_negates_and_swaps), and a table that leaves MAXIMIZE in place is REFUTED; shifting / permuting '
         'evaluate the base at the mapped point and commute with sign flipping in any stacking; a permutation dictionary with duplicate-free '
         'keys whose values are keys maps feasible values to feasible values; normalising with a positive std preserves the order of objective '
         'values. C20_source_as_modelled ties to the source: every problem_statement() is by value, the point-moving wrappers save and restore the '
         'suggested parameters, shifting subtracts the shift, objectives are multiplied by -1. PARTIAL: the base objective functions, converters '
         'inside shifting / hyper-cube / discretizing, noise generators and the completion of trials are decided by the monitor over every BBOB '
         'function, Branin, Hartmann, SimpleKD, multi-objective and random stacks of wrappers, not by a theorem. Four defects found and '
         'repaired by fix: commits.'),
   note=BASE_TB + ' harness/translate/exptrs.py regenerates coq/Gen/Exptrs.v (goal chain interpreted; other wrappers checked for their statement shapes). Relations against a stochastic (noisy) inner experimenter are not checked point by point.',
   technique='Rocq proof (equational reasoning over wrapper operators) + translator (mini-interpreter of the goal chain) + vm_compute correspondence + relation monitor', design='5/C20')
# additions of the last session (regenerated models and theorems per property)
EXTRA = {
  'C03': ' A single-valued range is shifted to 0.5 and never divided by its width, by the dispatch of scaler_from_spec regenerated at every run (C03_source_singleton_range_is_not_divided; harness/translate/scaledispatch.py).',
  'C11': ' The in-memory best-trial query (InRamPolicySupporter.GetBestTrials) is regenerated at every run (candidate tests, attributes read / written; harness/translate/besttrials.py): its candidates are exactly the successfully completed trials reporting every objective as a number, it reads only the current trials and the configuration and writes nothing, and the non-dominated candidates are exactly the set the property describes (C11_source_best_trials_candidates, _query_is_stateless, _exact). ListOptimalTrials reports only SUCCEEDED trials with every configured metric and no NaN objective (C11_service_reports_only_considered_trials; the NaN clause was a known finding until fix b8cd98b).',
  'C13': ' GridSearchDesigner.dump / load are regenerated at every run (harness/translate/gridstate.py): a dump loaded into ANY fresh instance gives back the dumped instance, the grid ordering re-derived from the restored seed included (C13_source_grid_restart_exact).',
  'C15': ' WHICH formula applies to which parameter is regenerated at every run from scaler_from_spec and ParameterConfig.continuify (harness/translate/scaledispatch.py): over a positive range the formula of the scale type, also for INTEGER / DISCRETE parameters turned into continuous ones; zero width shifted to 0.5; a log-type scale over a range touching 0 refused (C15_source_formula_follows_scale_type, C15_source_zero_width_is_shifted, C15_source_log_scale_refuses_nonpositive).',
  'C16': ' The membership test of one parameter (assert_correct_type, _assert_feasible, contains; ParameterValue casts pinned) is regenerated at every run (harness/translate/membership.py) and its meaning is proved to be pc_contains (C16_source_membership_is_the_model).',
  'C17': ' The auto-cast rule of add_discrete_param is regenerated at every run (harness/translate/autocast.py): INTEGER exactly when every feasible value is an integer, and a stored feasible value read through the declared type is that value (C17_source_autocast_is_the_rule, C17_source_discrete_value_presented_unchanged, C17_source_presented_as_int_iff_all_integral).',
  'C18': ' A constant label array does not divide by the zero range in the log warper: every label maps to 1/2 and un-warps to itself, for the guard and formula in the source today (C18_log_warper_constant_labels).',
}
EXTRA['C09'] = ' The trial ids of an EarlyStopRequest (a set, or None for all trials) come back as they were for every value but the empty set, which the wire cannot carry, with the decoder the source uses today (regenerated into Gen/EnumMaps.v; C09_source_early_stop_request_ids_roundtrip, C09_early_stop_request_ids_read_as_is_refuted).'
EXTRA['C04'] = ' The regenerated bodies of all 17 RPC handlers are the model\'s handler programs the interleaving theorems are about (C04_source_handlers_equal_the_model: stated as an equality, it is the one theorem of this file that uses the standard library\'s FunctionalExtensionality.functional_extensionality_dep).'
EXTRA['C05'] = ' The regenerated bodies of all 17 RPC handlers are the model\'s handler programs the crash theorems are about (C05_source_handlers_equal_the_model: stated as an equality, it is the one theorem of this file that uses the standard library\'s FunctionalExtensionality.functional_extensionality_dep).'
for _pid, _txt in EXTRA.items():
  CLAIMED[_pid]['text'] = CLAIMED[_pid]['text'] + _txt
CLAIMED['C11']['text'] = CLAIMED['C11']['text'].replace("one shard, NaN objectives reported by the service matrix.", "one shard, NaN objectives reported by the bare dominance matrix (the handler no longer considers such trials).")
ALL = ['C%02d' % i for i in range(1, 21)]
m = {
 'version': 1,
 'setup_cmd': './setup.sh',
 'hooks': {'guard': 'GOOGLE_VIZIER_VERIF', 'enable': 'none needed: observation points are reached by wrapping live objects from the harness; checks export GOOGLE_VIZIER_VERIF=1',
           'baseline_off_cmd': 'cd /repo && /venv/bin/python -m pytest -ra -q -p no:cacheprovider --timeout=900 --continue-on-collection-errors',
           'source_commits': [], 'add_only': True},
 'engines': [{'name': 'rocq-model', 'path': 'coq/', 'serves_properties': sorted(CLAIMED), 'kind_free_text': 'Coq 8.16.1 development: Model/ (executable), Proofs/, Properties/ (statements + Print Assumptions), Gen/ (translator output)'},
             {'name': 'harness', 'path': 'harness/', 'serves_properties': sorted(CLAIMED), 'kind_free_text': 'Python drivers: generators, real-code runners, cases-file emitters, monitors'}],
 'checks': [],
 'not_applicable': [],
 'notes': 'See DESIGN.md. Known findings in known_findings.json.',
}
for pid in ALL:
  if pid in CLAIMED:
    c = CLAIMED[pid]
    m['checks'].append({
      'property_id': pid, 'quick_cmd': './check %s quick' % pid, 'thorough_cmd': './check %s thorough' % pid,
      'evidence_file': '/verif/evidence/%s.json' % pid, 'replay_cmd_template': './check %s --replay {path}' % pid,
      'engine': 'rocq-model',
      'level_claimed': {'category': 'proof', 'text': c['text'], 'design_ref': c['design']},
      'level_note': c['note'], 'technique': c['technique']})
  else:
    m['not_applicable'].append({'property_id': pid, 'reason': 'not claimed yet: the Rocq model and check for this property have not been built in this round (see DESIGN.md section 5 for the plan)'})
json.dump(m, open(os.path.join(HERE, 'MANIFEST.json'), 'w'), indent=1)
print('MANIFEST.json written: %d checks, %d not claimed' % (len(m['checks']), len(m['not_applicable'])))
