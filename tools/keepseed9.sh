#!/bin/sh
# tools/keepseed9.sh Cxx slug : store the round-9 seeded change of /tmp/wt9_Cxx under /verif/seeded/Cxx-r9-<slug>/
p="$1"; slug="$2"; w=/tmp/wt9_$p; d=/verif/seeded/$p-r9-$slug
mkdir -p "$d"
git -C "$w" diff > "$d/patch.diff"
cp "$w"/demo_$p.py "$d/" 2>/dev/null
cp "$w/seed_meta.json" "$d/agent_meta.json" 2>/dev/null
echo "$d: $(wc -l < "$d/patch.diff") diff lines; files: $(grep '^+++ b/' "$d/patch.diff" | tr '\n' ' ')"
